"""Oracles and ties of work package `c20rest` (property C20) on the REAL code: the solver classes whose constructor
restrictions had no `accepts <-> Documented` theorem yet — RateStick, ExplosiveArc, Kenamond2 (list lengths),
SuOlson, the radiative-shock wrappers, the 1-D and 2-D Riemann wrappers, Hutchens1/2, Rectangle,
CylindricalSandwich, Mader (timmes), NohBlackBoxEos.

  init_tie            Float twins of the traced constructor trees (line protocol) vs the real constructors, sampling
                      exactly at and next to every traced constant (and every traced relational boundary)
  catalogue[...]      hand catalogue (the values of Spec/AdmissibleRest.lean) x {valid, boundary, violating}:
                      accepted / rejected, exception class compared; expectations follow `Coded`, the acceptance set the
                      theorems prove; the documented-but-not-enforced boundaries are the finding oracles below
  finding_*           the witnesses of the Finding theorems, reproduced on the real code (stable sites)
  finite[...]         isfinite sweeps of the public call inside the documented domain (small budgets)
  domain_*            requests outside the documented time / space domain: raise or NaN
  observations        undocumented laxness, recorded in the evidence, never a failure

Sites are stable strings '<Class>:<what>'; the sites of the findings reported with this package are in FINDING_SITES."""
import contextlib
import io
import math
import warnings

import numpy as np

from . import oracle as O
from . import lean_io
from py2lean.trace import load

RS = 'exactpack.solvers.dsd.ratestick:RateStick'
EA = 'exactpack.solvers.dsd.explosivearc:ExplosiveArc'
K2 = 'exactpack.solvers.kenamond.kenamond2:Kenamond2'
SU = 'exactpack.solvers.suolson.suolson:SuOlson'
H1 = 'exactpack.solvers.heat.hutchens1:Hutchens1'
H2 = 'exactpack.solvers.heat.hutchens2:Hutchens2'
RECT = 'exactpack.solvers.heat.rectangle:Rectangle'
CYL = 'exactpack.solvers.heat.cylindrical_sandwich:CylindricalSandwich'
MADER = 'exactpack.solvers.mader.timmes:Mader'
RIG = 'exactpack.solvers.riemann.ep_riemann:IGEOS_Solver'
RGEN = 'exactpack.solvers.riemann.ep_riemann:GenEOS_Solver'
R2D = 'exactpack.solvers.riemann2D_2section_steadystate.ep_riemann2D_2section_steadystate:IGEOS_Solver'
BB = 'exactpack.solvers.nohblackboxeos.blackboxnoh:NohBlackBoxEos'
BBEOS = 'exactpack.solvers.nohblackboxeos.equations_of_state.eos_library:ideal_gas_eos'
RAD = 'exactpack.solvers.radshocks.nED_radshocks:'
HALFPI = math.pi / 2.0


@contextlib.contextmanager
def quiet():
    with warnings.catch_warnings():
        warnings.simplefilter('ignore')
        with np.errstate(all='ignore'):
            with contextlib.redirect_stdout(io.StringIO()):
                yield


def outcome(fn):
    """'ok' or the exception class name of fn()"""
    try:
        with quiet():
            fn()
        return 'ok'
    except Exception as ex:
        return type(ex).__name__


def cls_of(path):
    return load(path)[1]


def bbnoh(geometry=3, u0=None, rho0=None, **ic):
    """NohBlackBoxEos with the library's ideal gas (gamma = 1.4, as in the traced model) and a FRESH dictionary"""
    d = dict(density=1.0, velocity=-1.0, pressure=0.0, symmetry=2)
    d.update(ic)
    kw = dict(geometry=geometry)
    if u0 is not None:
        kw['u0'] = u0
    if rho0 is not None:
        kw['rho0'] = rho0
    return cls_of(BB)(cls_of(BBEOS)(1.4), d, **kw)


# ======================================================================================================
# grids for the two DSD level-set solvers (the request must be a tensor grid that covers the explosive)
# ======================================================================================================
def rs_grid(R=1.0, nx=3, ny=3, ymax=1.0):
    x = np.linspace(0.0, R, nx)
    y = np.linspace(0.0, ymax, ny)
    x2, y2 = np.meshgrid(x, y)
    return np.vstack((x2.flatten(), y2.flatten())).T


def ea_grid(r1=2.0, r2=4.0, nr=3, nth=5):
    r = np.linspace(r1, r2, nr)
    th = np.linspace(-HALFPI, HALFPI, nth)
    r2g, th2g = np.meshgrid(r, th)
    return np.vstack(((r2g * np.cos(th2g)).flatten(), (r2g * np.sin(th2g)).flatten())).T


def call(path, params, pts, t):
    """('fields', dict name -> list) or ('raise', ExcName, message)"""
    try:
        with quiet():
            s = cls_of(path)(**params)
            sol = s(np.array(pts, dtype=float), t)
        return ('fields', {n: [float(v) for v in np.atleast_1d(sol[n])] for n in sol.dtype.names})
    except Exception as ex:
        return ('raise', type(ex).__name__, str(ex)[:100])


# ======================================================================================================
# tie: traced constructor trees vs real constructors
# ======================================================================================================
def _near(c):
    if c == 0.0:
        # (not the subnormal neighbours of 0: `(gamma - 1) * 5e-324` underflows to 0 and Python turns the division into a
        #  ZeroDivisionError — rounding/underflow is outside the theorems)
        return [0.0, -0.0, 1e-300, -1e-300, 0.5, -0.5]
    return [c, math.nextafter(c, math.inf), math.nextafter(c, -math.inf), c + 0.5, c - 0.5]


def _consts(entry):
    """every numeric constant of a traced condition: integer / rational literals and the recognised multiples of pi"""
    import re
    out = set(float(k) for k in entry.get('consts', {}))
    for txt in entry.get('conds', {}).values():
        for m in re.finditer(r'\((-?\d+(?:\.\d+)?)(?: / (\d+))? : ℝ\)', txt):
            out.add(float(m.group(1)) / (float(m.group(2)) if m.group(2) else 1.0))
    return sorted(out)


def _k2_wrong(nd, nt):
    def build(v):
        return lambda: cls_of(K2)(geometry=v.get('geometry', 2.0), R=v.get('R', 3.0), D1=v.get('D1', 2.0), D2=v.get('D2', 1.0),
                                  dets=[10.0, 5.0, -5.0, -10.0, 12.0][:nd], t_d=[2.0, 1.0, 0.0, 1.0, 2.0, 3.0][:nt])
    return build


def _riem_driver(v):
    """the real driver to its end; bisect failures are the atom's business (model: px is a free symbol)"""
    def run():
        import importlib
        R = importlib.import_module('exactpack.solvers.riemann.riemann')
        real = R.bisect

        def safe(f, a, b, **k):
            try:
                return real(f, a, b, **k)
            except (ValueError, RuntimeError):
                return 0.5 * (a + b)
        R.bisect = safe
        try:
            s = R.RiemannIGEOS(num_x_pts=5, **v)
            s.driver(0)
        finally:
            R.bisect = real
    return run


def _builders():
    from py2lean.targets.t_c20rest import REST_INIT, REST_FLAGS, REST_CONCRETE
    b = {}
    for name, path in REST_INIT.items():
        if name == 'InitBBNoh':
            b[name] = lambda v: (lambda: bbnoh(geometry=v['geometry'], density=v['ic_density'], velocity=v['ic_velocity'],
                                               pressure=v['ic_pressure'], symmetry=v['ic_symmetry']))
        else:
            b[name] = (lambda path, conc: (lambda v: (lambda: cls_of(path)(**dict(conc, **v)))))(path, REST_CONCRETE.get(name, {}))
    for name, (path, conc) in REST_FLAGS.items():
        b[name] = (lambda path, conc: (lambda v: (lambda: cls_of(path)(**dict(conc, **v)))))(path, conc)
    from py2lean.targets.t_c20rest import BB_WRAPPERS, BB_RESIDUALS, BBRES
    for name, cn in BB_WRAPPERS.items():
        b[name] = (lambda cn: (lambda v: (lambda: cls_of(BB.split(':')[0] + ':' + cn)(
            cls_of(BBEOS)(1.4), dict(density=v['ic_density'], velocity=v['ic_velocity'], pressure=v['ic_pressure'])))))(cn)
    for name, cn in BB_RESIDUALS.items():
        b[name] = (lambda cn: (lambda v: (lambda: cls_of(BBRES + ':' + cn)(
            dict(density=v['ic_density'], velocity=v['ic_velocity'], pressure=v['ic_pressure'], symmetry=v['ic_symmetry']),
            cls_of(BBEOS)(1.4)))))(cn)
    b['K2InitDets3'] = _k2_wrong(3, 5)
    b['K2InitDets5'] = _k2_wrong(5, 5)
    b['K2InitTd4'] = _k2_wrong(4, 4)
    b['K2InitTd6'] = _k2_wrong(4, 6)
    b['RiemDriverClass'] = _riem_driver
    return b


def _relational(name, vals, rng):
    """put a sample on (or next to) a traced boundary that relates two parameters"""
    if name == 'InitRateStick' and rng.random() < 0.5:
        vals.update(IC=1.0, R=rng.uniform(0.2, 2.0), omega_c=rng.uniform(0.1, 1.5))
        edge = vals['R'] / np.cos(vals['omega_c'])
        # (the exact boundary value depends on the last bit of cos: next to it on both sides, never on it)
        vals['r_d'] = float(edge * (1.0 + rng.choice([-1e-9, 1e-9, 0.3, -0.3])))
    if name == 'InitExplosiveArc' and rng.random() < 0.6:
        vals['omega_in'] = rng.choice([0.5, 1.0, math.nextafter(HALFPI, 0.0)])
        vals['omega_out'] = rng.choice([vals['omega_in'], math.nextafter(vals['omega_in'], 9.0),
                                        math.nextafter(vals['omega_in'], -9.0), HALFPI, math.nextafter(HALFPI, 9.0)])
        vals['r_1'] = rng.choice([2.0, 1.0])
        vals['r_2'] = rng.choice([vals['r_1'], math.nextafter(vals['r_1'], 9.0), 4.0])
    if name.startswith('K2Init'):
        vals['D1'] = rng.choice([2.0, 1.0, math.nextafter(1.0, 0.0)])
        vals['D2'] = rng.choice([1.0, 0.5])
    if name == 'RiemDriverClass':
        g = rng.choice([1.4, 5.0 / 3.0, 2.0, 3.0])
        vals.update(gl=g, gr=rng.choice([g, 1.4, 1.2]), pl=rng.choice([1.0, 0.1, 2.0, 1000.0]), pr=rng.choice([1.0, 0.1, 2.0, 0.01]),
                    rl=rng.choice([1.0, 0.125, 2.0, -1.0 if rng.random() < 0.15 else 1.0]), rr=rng.choice([1.0, 0.125, 3.0]),
                    ul=rng.choice([0.0, -2.0, 1.0, -10.0, 19.5975]), ur=rng.choice([0.0, 2.0, -1.0, 10.0, -19.5975, -6.19633]))
        if rng.random() < 0.3:
            # exactly at and next to the vacuum boundary ur = u_RCVR
            al, ar = math.sqrt(vals['gl'] * vals['pl'] / abs(vals['rl'])), math.sqrt(vals['gr'] * vals['pr'] / vals['rr'])
            vals['rl'] = abs(vals['rl'])
            edge = vals['ul'] + 2.0 * al / (vals['gl'] - 1.0) + 2.0 * ar / (vals['gr'] - 1.0)
            vals['ur'] = edge * (1.0 + rng.choice([1e-9, -1e-9, 0.1, -0.1])) if edge != 0 else rng.choice([1e-9, -1e-9])
    return vals


def init_tie(rng, deep):
    """the traced constructor models (and the traced Riemann classification) against the real code: outcome class"""
    import json
    import os
    from py2lean.targets.t_c20rest import REST_MODELS
    man = json.load(open(os.path.join(lean_io.LEAN_DIR, 'EPV', 'Gen', 'gen_manifest.json')))
    build = _builders()
    lines, cases = [], []
    for name in REST_MODELS:
        e = man.get(name)
        if not e or e.get('status') != 'ok':
            return dict(evaluations=0, distinct_nontrivial=0, samples=[], mismatches=[dict(model=name, why='model was not generated')])
        params = e['params']
        consts = _consts(e) or [0.0]
        near = sorted(set(v for c in consts for v in _near(c)))
        bbic = name.startswith('InitBBNoh') or name.startswith('InitRes')
        many = name in ('InitRateStick', 'InitExplosiveArc', 'InitBBNoh', 'RiemDriverClass')
        n = (200 if deep else 40) if many else (60 if deep else 12) if bbic else (30 if deep else 6)
        if not params:
            n = 1
        for _ in range(n):
            if name in ('InitRateStick', 'InitExplosiveArc'):
                # start from an accepted request and move one to three parameters onto a boundary
                vals = dict(D_CJ=1.0, IC=float(rng.choice([1, 2, 3])), R=1.0, alpha=0.1, geometry=float(rng.choice([1, 2])),
                            omega_c=0.7, r_d=25.0, t_f=6.0, xnodes=3.0, ynodes=3.0) if name == 'InitRateStick' else \
                    dict(D_CJ=1.0, alpha=0.1, geometry=1.0, omega_in=0.7, omega_out=HALFPI, r_1=2.0, r_2=4.0, t_f=14.0, x_d=-4.0,
                         xnodes=3.0, ynodes=5.0)
                for q in rng.sample(params, rng.choice([1, 1, 2, 3])):
                    vals[q] = rng.choice(near) if rng.random() < 0.85 else rng.uniform(-4, 4)
            elif bbic:
                vals = dict(geometry=3.0, ic_density=1.0, ic_pressure=0.0, ic_symmetry=float(rng.choice([0, 1, 2])), ic_velocity=-1.0)
                for q in rng.sample(params, rng.choice([1, 1, 2, 3])):
                    vals[q] = rng.choice(near) if rng.random() < 0.85 else rng.uniform(-4, 4)
            else:
                vals = {q: rng.choice(near) if rng.random() < 0.8 else rng.uniform(-4, 4) for q in params}
            vals = _relational(name, vals, rng)
            vals = {q: float(vals[q]) for q in params}
            lines.append(name + ''.join(' ' + lean_io.bits(vals[q]) for q in params))
            cases.append((name, vals))
    outs = lean_io.run_lines(lines)
    st = dict(evaluations=0, distinct_nontrivial=0, mismatches=[], samples=[], outcome_hist={}, leaves={})
    for (name, vals), line in zip(cases, outs):
        tag, _ = lean_io.parse_result(line)
        model = 'ok' if tag.startswith('ok') else tag.split(':')[-1]
        if model == 'GridReached':
            model = 'ok'          # the sentinel of the traced driver: the real driver runs on to its end
        real = outcome(build[name](vals))
        st['evaluations'] += 1
        st['outcome_hist'][real] = st['outcome_hist'].get(real, 0) + 1
        st['leaves'].setdefault(name, set()).add(tag.split(' ')[0])
        if real == 'ok':
            st['distinct_nontrivial'] += 1
        if model != real:
            st['mismatches'].append(dict(model=name, params=vals, why='model %s, real code %s' % (tag, real)))
        if len(st['samples']) < 2:
            st['samples'].append(dict(model=name, params=vals, outcome=tag))
    st['leaves'] = {k: len(v) for k, v in st['leaves'].items()}
    return st


# ======================================================================================================
# catalogue x {valid, boundary, violating}
# ======================================================================================================
RS_OK = dict(xnodes=3, ynodes=3)
EA_OK = dict(xnodes=3, ynodes=5)
_EDGE = 1.0 / math.cos(math.pi / 4.0)
# entries: param, valid values (boundary values that must be accepted included), violating values (boundary values that
# must be rejected included), fixed = other keywords.  Expectations follow `Coded` (Spec/AdmissibleRest.lean).
CATALOGUE = {
    'RateStick': (RS, RS_OK, [
        dict(param='geometry', valid=[1, 2, 1.0], violating=[0, 3, 1.5, -1]),
        dict(param='R', valid=[1.0, 1e-300, 0.3], violating=[0.0, -0.0, -1.0]),
        dict(param='omega_c', valid=[0.7, 1e-300, math.nextafter(HALFPI, 0.0)], violating=[0.0, -0.3, HALFPI, 2.0],
             fixed=dict(IC=3)),
        dict(param='D_CJ', valid=[1.0, 1e-300], violating=[0.0, -1.0]),
        dict(param='alpha', valid=[0.1, 1e-300], violating=[-1e-300, -0.1]),
        dict(param='IC', valid=[1, 2, 3], violating=[0, 4, 1.5]),
        dict(param='r_d', valid=[25.0, _EDGE * (1 + 1e-12), 1e300], violating=[_EDGE * (1 - 1e-12), 1.0, 0.0, -25.0],
             fixed=dict(IC=1)),
        dict(param='r_d', valid=[0.0, -3.0, 1.0], violating=[], fixed=dict(IC=2)),       # "Any value input for r_d will be overridden"
        dict(param='r_d', valid=[0.0, -3.0, 1.0], violating=[], fixed=dict(IC=3)),       # "Any value input for r_d will be ignored"
        dict(param='t_f', valid=[6.0, 1e-300], violating=[0.0, -1.0]),
        dict(param='xnodes', valid=[1, 11], violating=[0, -2]),
        dict(param='ynodes', valid=[1, 11], violating=[0, -2]),
    ]),
    'ExplosiveArc': (EA, EA_OK, [
        dict(param='geometry', valid=[1, 1.0], violating=[0, 2, 3, 1.5]),
        dict(param='r_1', valid=[2.0, 1e-300], violating=[0.0, -2.0]),
        dict(param='r_2', valid=[4.0, math.nextafter(2.0, 3.0)], violating=[0.0, -4.0, 2.0, 1.0]),
        dict(param='omega_in', valid=[0.7, 1e-300, math.nextafter(HALFPI, 0.0)], violating=[0.0, -0.7, HALFPI, 2.0]),
        dict(param='omega_out', valid=[HALFPI, 1.0, math.nextafter(math.pi / 4.0, 1.0)],
             violating=[math.nextafter(math.pi / 4.0, 0.0), 0.1, math.nextafter(HALFPI, 2.0), 2.0]),
        dict(param='x_d', valid=[-4.0, -1e-300], violating=[0.0, 1e-300, 4.0]),
        dict(param='D_CJ', valid=[1.0, 1e-300], violating=[0.0, -1.0]),
        dict(param='alpha', valid=[0.1, 1e-300], violating=[-1e-300, -0.1]),
        dict(param='t_f', valid=[14.0, 1e-300], violating=[0.0, -1.0]),
        dict(param='xnodes', valid=[1, 21], violating=[0, -2]),
        dict(param='ynodes', valid=[1, 41], violating=[0, -2]),
    ]),
    'Kenamond2': (K2, {}, [
        dict(param='dets', valid=[[10.0, 5.0, -5.0, -10.0]], violating=[[10.0, 5.0, -5.0], [10.0, 5.0, -5.0, -10.0, 12.0], []]),
        dict(param='t_d', valid=[[2.0, 1.0, 0.0, 1.0, 2.0]], violating=[[2.0, 1.0, 0.0, 1.0], [2.0, 1.0, 0.0, 1.0, 2.0, 3.0], []]),
        dict(param='D1', valid=[2.0, math.nextafter(1.0, 2.0)], violating=[math.nextafter(1.0, 0.0), 0.5, 0.0, -2.0]),
        # the four ordering conditions at their boundaries (defaults: bound = 0 + 3 (1/2 + 1) - |a|/1)
        dict(param='t_d', valid=[[-5.5, -0.5, 0.0, -0.5, -5.5]], violating=[[math.nextafter(-5.5, -9.0), -0.5, 0.0, -0.5, -5.5],
                                                                          [-5.5, math.nextafter(-0.5, -9.0), 0.0, -0.5, -5.5],
                                                                          [-5.5, -0.5, 0.0, math.nextafter(-0.5, -9.0), -5.5],
                                                                          [-5.5, -0.5, 0.0, -0.5, math.nextafter(-5.5, -9.0)]]),
        dict(param='dets', valid=[[math.nextafter(3.0, 4.0), 5.0, -5.0, math.nextafter(-3.0, -4.0)]],
             violating=[[3.0, 5.0, -5.0, -10.0], [10.0, 5.0, -3.0, -10.0], [10.0, 0.0, -5.0, -10.0]],
             fixed=dict(t_d=[20.0, 20.0, 0.0, 20.0, 20.0])),
    ]),
    # classes that document no restriction: everything is accepted (extreme values included)
    'SuOlson': (SU, {}, [dict(param='alpha', valid=[3e-14, 0.0, -1.0], violating=[]), dict(param='opac', valid=[1.0, 0.0, -1.0], violating=[]),
                         dict(param='trad_bc_ev', valid=[1e3, 0.0, -1.0], violating=[])]),
    'Hutchens1': (H1, {}, [dict(param='b', valid=[1.0, 0.0, -1.0], violating=[]), dict(param='rho', valid=[7.9, 0.0], violating=[]),
                           dict(param='Nsum', valid=[100, 0, -3], violating=[])]),
    'Hutchens2': (H2, {}, [dict(param='b', valid=[1.0, 0.0, -1.0], violating=[]), dict(param='L', valid=[2.0, 0.0], violating=[]),
                           dict(param='k', valid=[8e10, 0.0], violating=[])]),
    'Rectangle': (RECT, {}, [dict(param='a', valid=[2.0, 0.0, -1.0], violating=[]), dict(param='b', valid=[2.0, 0.0], violating=[]),
                             dict(param='kappa', valid=[1.0, 0.0, -1.0], violating=[])]),
    'CylindricalSandwich': (CYL, {}, [dict(param='a', valid=[0.25, 0.0, 0.9], violating=[]), dict(param='b', valid=[0.85, 0.1], violating=[]),
                                      dict(param='kappa', valid=[1.0, -1.0], violating=[])]),
    'Mader': (MADER, {}, [dict(param='gamma', valid=[3.0, 1.0, 0.0], violating=[]), dict(param='d_cj', valid=[8e5, 0.0, -1.0], violating=[]),
                          dict(param='p_cj', valid=[3e11, 0.0, -1.0], violating=[])]),
    'IGEOS_Solver': (RIG, {}, [dict(param='rl', valid=[1.0, 0.0, -1.0], violating=[]), dict(param='gl', valid=[1.4, 1.0], violating=[]),
                               dict(param='xd0', valid=[0.5, 2.0, -1.0], violating=[]), dict(param='pl', valid=[1.0, -1.0], violating=[])]),
    'GenEOS_Solver': (RGEN, {}, [dict(param='rl', valid=[1.0, 0.0, -1.0], violating=[]), dict(param='gl', valid=[1.4, 1.0], violating=[])]),
    'Riemann2D': (R2D, {}, [dict(param='bottom_state', valid=[[1., 1., 2.4, 0., 1.4], [1., 1., 0.8, 0., 1.4], [-1., 1., 2.4, 0., 1.4]], violating=[])]),
}


def catalogue(name):
    path, base, ents = CATALOGUE[name]

    def gen(rng):
        e = rng.choice(ents)
        kind = rng.choice([k for k in ('valid', 'violating') if e[k]])
        i = rng.randrange(len(e[kind]))
        return dict(solver=name, entry=ents.index(e), kind=kind, index=i)

    def check(c):
        e = ents[c['entry']]
        v = e[c['kind']][c['index']]
        kw = dict(base)
        kw.update(e.get('fixed', {}))
        kw[e['param']] = v
        got = outcome(lambda: cls_of(path)(**kw))
        want = 'ok' if c['kind'] == 'valid' else 'ValueError'
        if got != want:
            return dict(site='%s:constructor:%s' % (name, e['param']),
                        detail='%s(%s=%r%s): expected %s, got %s' % (name, e['param'], v, ', %r' % e.get('fixed') if e.get('fixed') else '', want, got))
        return None
    return O.make(gen, check, 'c20rest.catalogue.' + name)


BB_CAT = [  # (keyword arguments of `bbnoh`, expected)
    (dict(), 'ok'), (dict(geometry=1), 'ok'), (dict(geometry=2), 'ok'), (dict(geometry=0), 'ValueError'), (dict(geometry=4), 'ValueError'),
    (dict(geometry=2.5), 'ValueError'),
    (dict(velocity=-1e-300), 'ok'), (dict(velocity=0.0), 'ValueError'), (dict(velocity=1.0), 'ValueError'),
    (dict(density=1e-300), 'ok'), (dict(density=0.0), 'ValueError'), (dict(density=-1.0), 'ValueError'),
    (dict(symmetry=0, pressure=0.0), 'ok'), (dict(symmetry=0, pressure=1.0), 'ok'), (dict(symmetry=0, pressure=-1e-300), 'ValueError'),
    (dict(symmetry=1, pressure=0.0), 'ok'), (dict(symmetry=1, pressure=1e-300), 'ValueError'), (dict(symmetry=2, pressure=1.0), 'ValueError'),
    (dict(symmetry=3), 'ValueError'), (dict(symmetry=-1), 'ValueError'), (dict(symmetry=1.5), 'ValueError'),
]


def _bb_gen(rng):
    return dict(index=rng.randrange(len(BB_CAT)))


def _bb_check(c):
    kw, want = BB_CAT[c['index']]
    got = outcome(lambda: bbnoh(**kw))
    if got != want:
        return dict(site='NohBlackBoxEos:constructor:%s' % '/'.join(sorted(kw)), detail='NohBlackBoxEos(%r): expected %s, got %s' % (kw, want, got))
    return None


def _bb_family():
    """the three geometry wrappers and the four residual classes x the initial-condition catalogue"""
    from py2lean.targets.t_c20rest import BB_WRAPPERS, BB_RESIDUALS, BBRES
    eos = lambda: cls_of(BBEOS)(1.4)
    IC = lambda **k: dict(dict(density=1.0, velocity=-1.0, pressure=0.0), **k)
    cases = []
    for cn, sym in (('PlanarNohBlackBox', 0), ('CylindricalNohBlackBox', 1), ('SphericalNohBlackBox', 2)):
        C = BB.split(':')[0] + ':' + cn
        for kw, want in [(dict(), 'ok'), (dict(velocity=-1e-300), 'ok'), (dict(velocity=0.0), 'ValueError'), (dict(velocity=2.0), 'ValueError'),
                         (dict(density=1e-300), 'ok'), (dict(density=0.0), 'ValueError'), (dict(density=-1.0), 'ValueError'),
                         (dict(pressure=-1e-300), 'ValueError'), (dict(pressure=1.0), 'ok' if sym == 0 else 'ValueError')]:
            cases.append((cn, kw, want, (lambda C, kw: (lambda: cls_of(C)(eos(), IC(**kw))))(C, kw)))
    for cn in BB_RESIDUALS.values():
        simp = cn.startswith('simplified')
        C = BBRES + ':' + cn
        for kw, want in [(dict(symmetry=0), 'ok'), (dict(symmetry=1), 'ValueError' if simp else 'ok'), (dict(symmetry=2), 'ValueError' if simp else 'ok'),
                         (dict(symmetry=3), 'ValueError'), (dict(symmetry=-1), 'ValueError'), (dict(symmetry=0.5), 'ValueError'),
                         (dict(symmetry=0, velocity=0.0), 'ValueError'), (dict(symmetry=0, velocity=-1e-300), 'ok'),
                         (dict(symmetry=0, density=0.0), 'ValueError'), (dict(symmetry=0, density=1e-300), 'ok'),
                         (dict(symmetry=0, pressure=1.0), 'ValueError' if simp else 'ok'), (dict(symmetry=0, pressure=-1e-300), 'ValueError'),
                         (dict(symmetry=2, pressure=1e-300), 'ValueError')]:
            cases.append((cn, kw, want, (lambda C, kw: (lambda: cls_of(C)(IC(**kw), eos())))(C, kw)))
    return cases


def _bbf_gen(rng):
    return dict(index=rng.randrange(len(_BBF)))


def _bbf_check(c):
    cn, kw, want, fn = _BBF[c['index']]
    got = outcome(fn)
    if got != want:
        return dict(site='%s:constructor:%s' % (cn, '/'.join(sorted(kw)) or 'defaults'), detail='%s(%r): expected %s, got %s' % (cn, kw, want, got))
    return None


_BBF = _bb_family()
catalogue_oracle = {n: catalogue(n) for n in CATALOGUE}
catalogue_oracle['NohBlackBoxFamily'] = O.make(_bbf_gen, _bbf_check, 'c20rest.catalogue.NohBlackBoxFamily')
catalogue_oracle['NohBlackBoxEos'] = O.make(_bb_gen, _bb_check, 'c20rest.catalogue.NohBlackBoxEos')


# ======================================================================================================
# findings: the witnesses of the Finding theorems on the real code
# ======================================================================================================
def _fixed(cases, name, quick=None):
    """oracle over a fixed list of (label, thunk -> None | failure dict): EVERY case is evaluated on every run (whatever the
    budget), so that the lines reported for known findings are deterministic"""
    def run(rng, budget, deep, replay=None):
        res = dict(evaluations=0, failures=[], samples=[], worst=None, distinct_nontrivial=0)
        todo = range(len(cases)) if (deep or quick is None) else quick      # `quick`: indices evaluated in the quick tier
        if replay is not None:
            todo = [replay.get('case', replay).get('index', 0)]
        for i in todo:
            label, fn = cases[i]
            with quiet():
                f = fn()
            res['evaluations'] += 1
            res['distinct_nontrivial'] += 1
            if not res['samples']:
                res['samples'].append(dict(oracle=name, case=dict(index=i, label=label)))
            if f:
                f['case'] = dict(index=i, label=label)
                f.setdefault('oracle', name)
                if f.get('site') not in [x.get('site') for x in res['failures']]:
                    res['failures'].append(f)
        return res
    run.__name__ = name
    return run


def _all_finite(fields, skip=()):
    return all(math.isfinite(v) for n, col in fields.items() if n not in skip for v in col)


def _ctor_accepts(site, what, documented, build, then=None):
    """the constructor accepts a request the documentation excludes; `then` describes what the first call does"""
    def fn():
        got = outcome(build)
        if got == 'ValueError':
            return None
        extra = ''
        if got == 'ok' and then is not None:
            extra = '; first call: %s' % then()
        return dict(site=site, detail='%s: documented %s; constructor: %s%s' % (what, documented, 'accepted' if got == 'ok' else got, extra))
    return fn


def _rs_call(**kw):
    r = call(RS, dict(RS_OK, t_f=0.05, **kw), rs_grid(kw.get('R', 1.0)), 0.6)
    return '%s %s' % (r[1], r[2]) if r[0] == 'raise' else 'returned'


def _ea_call(**kw):
    r = call(EA, dict(EA_OK, t_f=0.05, **kw), ea_grid(), 0.6)
    return '%s %s' % (r[1], r[2]) if r[0] == 'raise' else 'returned'


finding_ratestick_alpha = _fixed([
    ('alpha=0', _ctor_accepts('RateStick:alpha=0', 'RateStick(alpha=0.0, IC=3, omega_c=0.5, xnodes=3, ynodes=3)',
                              '"The linear coefficient, alpha, of detonation velocity deviance must also be positive"',
                              lambda: cls_of(RS)(alpha=0.0, IC=3, omega_c=0.5, **RS_OK), lambda: _rs_call(alpha=0.0, IC=3, omega_c=0.5))),
], 'c20rest.finding.ratestick.alpha')

finding_explosivearc = _fixed([
    ('alpha=0', _ctor_accepts('ExplosiveArc:alpha=0', 'ExplosiveArc(alpha=0.0, omega_in=0.5, omega_out=1.0, xnodes=3, ynodes=5)',
                              '"The linear coefficient, alpha, of detonation velocity deviance must also be positive"',
                              lambda: cls_of(EA)(alpha=0.0, omega_in=0.5, omega_out=1.0, **EA_OK),
                              lambda: _ea_call(alpha=0.0, omega_in=0.5, omega_out=1.0))),
    ('omega', _ctor_accepts('ExplosiveArc:omega_out=omega_in', 'ExplosiveArc(omega_in=0.5, omega_out=0.5, xnodes=3, ynodes=5)',
                            '"omega_c is assumed to satisfy omega_s < omega_c < pi/2" (or omega_out = pi/2)',
                            lambda: cls_of(EA)(omega_in=0.5, omega_out=0.5, **EA_OK), lambda: _ea_call(omega_in=0.5, omega_out=0.5))),
], 'c20rest.finding.explosivearc')


def _bb_u0(u0):
    def then():
        with quiet():
            s = bbnoh(u0=u0)(np.array([0.1, 0.5, 1.0]), 0.6)
        return 'density %r velocity %r' % ([float(v) for v in s['density']], [float(v) for v in s['velocity']])
    return _ctor_accepts('NohBlackBoxEos:u0>=0', 'NohBlackBoxEos(ideal_gas_eos(1.4), u0=%r)' % u0, "'u0': \"incident velocity (negative)\"",
                         lambda: bbnoh(u0=u0), then)


finding_bbnoh_u0 = _fixed([('u0=1', _bb_u0(1.0)), ('u0=0', _bb_u0(0.0))], 'c20rest.finding.bbnoh.u0')


def _vacuum():
    r = call(RIG, dict(ul=-10.0, ur=10.0), [0.2, 0.5, 0.8], 0.25)
    if r[0] == 'raise' and r[1] == 'ValueError':
        return None
    return dict(site='IGEOS_Solver:vacuum:NameError',
                detail='IGEOS_Solver(ul=-10, ur=10) at t=0.25 (vacuum between the fans): %s' % (
                    'raises %s: %s (not a ValueError, not at construction)' % (r[1], r[2]) if r[0] == 'raise' else 'returned fields'))


def _flag(path, site, params, pts=(0.2, 0.8), t=0.25):
    def fn():
        got = outcome(lambda: cls_of(path)(**params))
        if got == 'ValueError':
            return None
        r = call(path, params, list(pts), t) if got == 'ok' else None
        return dict(site=site, detail='%s(%r): a value outside the documented options is %s at construction%s' % (
            path.split(':')[1], params, 'accepted' if got == 'ok' else 'answered with ' + got,
            '' if r is None else '; first call: ' + ('%s %s' % (r[1], r[2]) if r[0] == 'raise' else 'returned fields')))
    return fn


finding_riemann = _fixed([
    ('vacuum', _vacuum),
    ('flag-ig', _flag(RIG, 'IGEOS_Solver:problem-flag', dict(problem='bogus'))),
    ('flag-gen', _flag(RGEN, 'GenEOS_Solver:problem-flag', dict(problem='bogus'))),
], 'c20rest.finding.riemann')

finding_radshock_flag = _fixed([
    ('flag-ned', _flag(RAD + 'nED_Solver', 'nED_Solver:problem-flag', dict(problem='bogus'), pts=(-0.01, 0.01), t=1e-9)),
    ('flag-sn', _flag(RAD + 'Sn_Solver', 'Sn_Solver:problem-flag', dict(problem='bogus'), pts=(-0.01, 0.01), t=1e-9)),
], 'c20rest.finding.radshock.flag')


def _rad_option(pb):
    """a documented value of the `problem` flag of nED_Solver: accepted, finite profile"""
    def fn():
        r = call(RAD + 'nED_Solver', dict(problem=pb), [-0.01, -0.001, 0.0, 0.001, 0.01], 1e-9)
        if r[0] == 'fields' and _all_finite(r[1]):
            return None
        return dict(site='nED_Solver:documented-option:%s' % pb,
                    detail="nED_Solver(problem=%r), a documented option: %s" % (pb, 'raises %s %s' % (r[1], r[2]) if r[0] == 'raise' else 'non-finite fields'))
    return fn


# 'problem': "... ('LM_nED') or ... ('nED'), or ... ('FLD_LP'), ('FLD_poly'), ('FLD_1'), ('FLD_2')" — each ~0.3 s: two in the quick tier
catalogue_radshock = _fixed([(pb, _rad_option(pb)) for pb in ('nED', 'LM_nED', 'FLD_LP', 'FLD_poly', 'FLD_1', 'FLD_2')],
                            'c20rest.catalogue.radshock', quick=[0, 1])


def _outside(site, path, params, pts, t, what, coords=()):
    """a request outside the documented domain: must raise or return NaN"""
    def fn():
        r = call(path, params, pts, t)
        if r[0] == 'raise':
            return None
        vals = {n: col for n, col in r[1].items() if n not in coords}
        bad = {n: col for n, col in vals.items() if any(math.isfinite(v) for v in col)}
        if not bad:
            return None
        n0 = sorted(bad)[0]
        return dict(site=site, detail='%s: returns finite %s = %r' % (what, n0, bad[n0]))
    return fn


finding_suolson_space = _fixed([
    ('suolson', _outside('SuOlson:z<0', SU, {}, [-0.5, -0.01], 1e-9, 'SuOlson() at z = -0.5, -0.01 < 0, t = 1e-9 (documented 0 <= z < inf)',
                         coords=('position',))),
], 'c20rest.finding.suolson.space')

domain_outside = _fixed([
    ('riemann', _outside('IGEOS_Solver:t<0', RIG, {}, [0.2, 0.35, 0.8], -0.25, 'IGEOS_Solver() at t = -0.25 (documented t in R^{1+})',
                         coords=('position',))),
    ('hutchens1', _outside('Hutchens1:r>b', H1, {}, [1.5, 2.0], 1e-3, 'Hutchens1() at r = 1.5, 2.0 > b = 1 (sphere of radius b)',
                           coords=('radius',))),
    ('hutchens2', _outside('Hutchens2:outside-cylinder', H2, {}, [[0.5, 0.5], [2.5, -0.5]], 1.0,
                           'Hutchens2() at z = 2.5 > L = 2 and z = -0.5 < 0 (cylinder 0 <= z <= L)', coords=('position_r', 'position_z'))),
    ('rectangle', _outside('Rectangle:outside-rectangle', RECT, dict(Nsum=30), [[2.5, -0.5, 1.0], [1.0, 1.0, 2.5]], 0.1,
                           'Rectangle() at (2.5,1), (-0.5,1), (1,2.5) outside [0,a]x[0,b] = [0,2]^2', coords=('position_x', 'position_y'))),
    ('sandwich', _outside('CylindricalSandwich:outside-annulus', CYL, dict(Nsum=3, Msum=5), [[0.1, 1.5, 0.5], [0.5, 0.5, 2.5]], 0.1,
                          'CylindricalSandwich() at r = 0.1 < a, r = 1.5 > b, theta = 2.5 > pi/2', coords=('position_r', 'angle_theta'))),
], 'c20rest.domain.outside')


def _sentinel(site, path, params, pts, what):
    def fn():
        r = call(path, params, pts, 0.6)
        if r[0] == 'raise':
            return None
        bt = r[1]['burntime']
        neg = [v for v in bt if v < 0 and math.isfinite(v)]
        if not neg:
            return None
        return dict(site=site, detail='%s: %d of %d points get burntime %r (finite, negative, undocumented)' % (what, len(neg), len(bt), neg[0]))
    return fn


domain_unreached = _fixed([
    ('ratestick', _sentinel('RateStick:unreached=-10.0', RS, dict(RS_OK, t_f=0.05), rs_grid(),
                            'RateStick(t_f=0.05) on the 3x3 grid [0,1]^2: points the front has not reached by t_f')),
    ('explosivearc', _sentinel('ExplosiveArc:unreached=-10.0', EA, dict(EA_OK, t_f=0.001), ea_grid(),
                               'ExplosiveArc(t_f=0.001) on the 3x5 polar grid: points the front has not reached by t_f')),
], 'c20rest.domain.unreached')


def _overflow(site, path, params, pts, t, what, coords):
    def fn():
        r = call(path, params, pts, t)
        if r[0] == 'raise':
            return dict(site=site, detail='%s: raises %s %s' % (what, r[1], r[2]))
        vals = [v for n, col in r[1].items() if n not in coords for v in col]
        if all(math.isfinite(v) for v in vals):
            return None
        return dict(site=site, detail='%s: temperature %r' % (what, vals))
    return fn


finding_heat_overflow = _fixed([
    ('hutchens2', _overflow('Hutchens2:overflow:nan', H2, dict(b=2.4), [[2.3, 2.4, 0.1], [1.0, 1.0, 1.0]], 1.0,
                            'Hutchens2(b=2.4) inside the cylinder (r = 2.3, 2.4 <= b, z = 1 in [0, L]): I0(lam r)/I0(lam b) = inf/inf',
                            ('position_r', 'position_z'))),
    ('rectangle', _overflow('Rectangle:overflow:nan', RECT, dict(b=5.0, NonHomogeneousOnly=True), [[1.0, 1.0], [4.8, 2.0]], 0.1,
                            'Rectangle(b=5.0) inside the rectangle (x = 1, y = 4.8 <= b): sinh(k y)/sinh(k b) = inf/inf',
                            ('position_x', 'position_y'))),
], 'c20rest.finding.heat.overflow')


# ======================================================================================================
# the documented domain tests that DO hold
# ======================================================================================================
def _expect_raise(site, path, params, pts, t, what):
    def fn():
        r = call(path, params, pts, t)
        if r[0] == 'raise' and r[1] == 'ValueError':
            return None
        return dict(site=site, detail='%s: expected ValueError, got %s' % (what, r[1] if r[0] == 'raise' else 'fields'))
    return fn


def _expect_nan(site, path, params, pts, t, what, coords):
    def fn():
        r = call(path, params, pts, t)
        if r[0] == 'raise':
            return dict(site=site, detail='%s: raises %s' % (what, r[1]))
        vals = [v for n, col in r[1].items() if n not in coords for v in col]
        if all(math.isnan(v) for v in vals):
            return None
        return dict(site=site, detail='%s: expected NaN, got %r' % (what, vals[:4]))
    return fn


_g = rs_grid()
domain_enforced = _fixed([
    ('rs-count', _expect_raise('RateStick:grid', RS, dict(xnodes=2, ynodes=3, t_f=0.05), _g, 0.6, 'xnodes*ynodes != number of points')),
    ('rs-R', _expect_raise('RateStick:grid', RS, dict(RS_OK, t_f=0.05), _g * np.array([0.5, 1.0]), 0.6, 'max x != R')),
    ('rs-0', _expect_raise('RateStick:grid', RS, dict(RS_OK, t_f=0.05), _g * np.array([0.5, 1.0]) + np.array([0.5, 0.0]), 0.6, 'min x != 0')),
    ('ea-count', _expect_raise('ExplosiveArc:grid', EA, dict(xnodes=2, ynodes=5, t_f=0.01), ea_grid(), 0.6, 'xnodes*ynodes != number of points')),
    ('ea-x', _expect_raise('ExplosiveArc:grid', EA, dict(EA_OK, t_f=0.01), ea_grid() * np.array([-1.0, 1.0]), 0.6, 'x < 0')),
    ('ea-r2', _expect_raise('ExplosiveArc:grid', EA, dict(EA_OK, t_f=0.01), ea_grid(2.0, 5.0), 0.6, 'points beyond r_2')),
    ('ea-r1', _expect_raise('ExplosiveArc:grid', EA, dict(EA_OK, t_f=0.01), ea_grid(3.0, 4.0), 0.6, 'no points at r_1')),
    ('su-t0', _expect_nan('SuOlson:t<=0', SU, {}, [0.1, 1.0], 0.0, 't = 0', ('position',))),
    ('su-tneg', _expect_nan('SuOlson:t<=0', SU, {}, [0.1, 1.0], -1e-9, 't < 0', ('position',))),
    ('mader-t0', _expect_nan('Mader:t<=0', MADER, {}, [0.5, 2.5, 4.5], 0.0, 't = 0', ('position',))),
], 'c20rest.domain.enforced')


# ======================================================================================================
# isfinite sweeps inside the documented domain
# ======================================================================================================
def _finite(name, gen_case, coords=()):
    def gen(rng):
        return gen_case(rng)

    def check(c):
        r = call(c['cls'], c['params'], c['pts'], c['t'])
        if r[0] == 'raise':
            return dict(site='%s:in-domain:raises' % name, detail='%s: %s' % (r[1], r[2]))
        for n, col in r[1].items():
            if n in coords:
                continue
            for i, v in enumerate(col):
                if not math.isfinite(v):
                    return dict(site='%s:in-domain:nonfinite' % name, detail='%s[%d] = %r' % (n, i, v))
        return None
    return O.make(gen, check, 'c20rest.finite.' + name)


def _rs_case(rng):
    R = rng.choice([1.0, 0.6])
    w = rng.uniform(0.4, 1.2)
    ic = rng.choice([1, 2, 3])
    p = dict(RS_OK, geometry=rng.choice([1, 2]), R=R, omega_c=w, D_CJ=rng.uniform(0.5, 2.0), alpha=rng.uniform(0.05, 0.2), IC=ic,
             t_f=rng.uniform(0.02, 0.06))
    if ic == 1:
        p['r_d'] = R / math.cos(w) * rng.choice([1.0 + 1e-9, 2.0, 20.0])
    return dict(cls=RS, params=p, pts=rs_grid(R).tolist(), t=0.6)


def _ea_case(rng):
    r1 = rng.choice([2.0, 1.0])
    r2 = r1 + rng.choice([2.0, 1.0])
    win = rng.uniform(0.4, 1.2)
    p = dict(EA_OK, r_1=r1, r_2=r2, omega_in=win, omega_out=rng.choice([HALFPI, 0.5 * (win + HALFPI)]), x_d=-rng.uniform(1.0, 5.0),
             D_CJ=rng.uniform(0.5, 2.0), alpha=rng.uniform(0.05, 0.2), t_f=rng.uniform(0.01, 0.03))
    return dict(cls=EA, params=p, pts=ea_grid(r1, r2).tolist(), t=0.6)


def _su_case(rng):
    return dict(cls=SU, params=dict(trad_bc_ev=rng.uniform(100.0, 2000.0), opac=rng.uniform(0.5, 2.0)),
                pts=sorted(rng.uniform(0.0, 3.0) for _ in range(3)), t=rng.choice([1e-10, 1e-9, 1e-8]))


def _rig_case(rng):
    p = dict(rl=rng.uniform(0.5, 2.0), pl=rng.uniform(0.5, 2.0), ul=rng.uniform(-0.5, 0.5), gl=rng.choice([1.4, 5.0 / 3.0]),
             rr=rng.uniform(0.1, 2.0), pr=rng.uniform(0.05, 2.0), ur=rng.uniform(-0.5, 0.5), gr=rng.choice([1.4, 5.0 / 3.0]), num_x_pts=101)
    return dict(cls=RIG, params=p, pts=sorted(rng.uniform(0.0, 1.0) for _ in range(5)), t=rng.uniform(0.05, 0.3))


def _h1_case(rng):
    b = rng.uniform(0.5, 2.0)
    return dict(cls=H1, params=dict(b=b, Tb=rng.uniform(1.0, 9.0), T0=rng.uniform(0.5, 5.0)),
                pts=[b * u for u in (0.0, 0.01, rng.uniform(0.05, 0.95), 1.0)], t=rng.choice([1e-3, 1e-2, 0.1, 1.0]))


def _h2_case(rng):
    # (b/L <= 1: beyond b/L ~ 1.14 the Bessel ratio overflows — finding `Hutchens2:overflow:nan`)
    L = rng.uniform(1.0, 3.0)
    b = L * rng.uniform(0.2, 1.0)
    return dict(cls=H2, params=dict(b=b, L=L), pts=[[0.0, 0.5 * b, b], [0.1 * L, 0.5 * L, L]], t=1.0)


def _rect_case(rng):
    a = rng.uniform(1.0, 3.0)
    b = a * rng.uniform(0.4, 2.0)
    return dict(cls=RECT, params=dict(a=a, b=b, Nsum=30, kappa=rng.uniform(0.5, 2.0)),
                pts=[[0.0, 0.3 * a, a], [0.0, 0.6 * b, b]], t=rng.choice([1e-3, 0.05, 1.0]))


def _cyl_case(rng):
    return dict(cls=CYL, params=dict(Nsum=3, Msum=4, T1=rng.uniform(0.5, 2.0)), pts=[[0.25, 0.5, 0.85], [0.0, 0.7, HALFPI]], t=rng.choice([0.01, 0.1]))


def _mader_case(rng):
    return dict(cls=MADER, params=dict(gamma=rng.uniform(1.5, 3.5), u_piston=rng.choice([0.0, 1e4])),
                pts=np.linspace(0.1, 4.9, 6).tolist(), t=rng.uniform(2e-6, 6.25e-6))


def _r2d_case(rng):
    s = 1.0 + 0.05 * rng.uniform(-1, 1)
    return dict(cls=R2D, params=dict(bottom_state=[1.0 * s, 1.0, 2.4, 0.0, 1.4], top_state=[0.25, 0.5 * s, 7.0, 0.0, 1.4]),
                pts=[[1.0, y] for y in (-0.6, -0.2, 0.0, 0.1, 0.5)], t=0.25)


finite = {
    'RateStick': _finite('RateStick', _rs_case, ('position_x', 'position_y')),
    'ExplosiveArc': _finite('ExplosiveArc', _ea_case, ('position_x', 'position_y')),
    'SuOlson': _finite('SuOlson', _su_case),
    'IGEOS_Solver': _finite('IGEOS_Solver', _rig_case),
    'Hutchens1': _finite('Hutchens1', _h1_case),
    'Hutchens2': _finite('Hutchens2', _h2_case),
    'Rectangle': _finite('Rectangle', _rect_case),
    'CylindricalSandwich': _finite('CylindricalSandwich', _cyl_case),
    'Mader': _finite('Mader', _mader_case),
    'Riemann2D': _finite('Riemann2D', _r2d_case),
}


def _rad_gen(rng):
    return dict(cls=RAD + 'nED_Solver', params=dict(M0=rng.choice([1.2, 1.4])), pts=[-0.01, -0.001, 0.0, 0.001, 0.01], t=rng.choice([1e-10, 1e-9]))


finite['nED_Solver'] = _finite('nED_Solver', _rad_gen)


# ======================================================================================================
# observations: undocumented laxness (recorded in the evidence; never a failure)
# ======================================================================================================
OBSERVATIONS = [
    ('SuOlson(alpha=0)', lambda: call(SU, dict(alpha=0.0), [0.1], 1e-9)),
    ('SuOlson(alpha<0)', lambda: call(SU, dict(alpha=-3e-14), [0.1], 1e-9)),
    ('SuOlson(opac<0)', lambda: call(SU, dict(opac=-1.0), [0.1], 1e-9)),
    ('Hutchens1(b=0)', lambda: call(H1, dict(b=0.0), [0.1], 1e-3)),
    ('Hutchens1(rho=0)', lambda: call(H1, dict(rho=0.0), [0.1], 1e-3)),
    ('Hutchens2(L=0)', lambda: call(H2, dict(L=0.0), [[0.1], [0.5]], 1.0)),
    ('Rectangle(a=0)', lambda: call(RECT, dict(a=0.0, Nsum=10), [[0.5], [0.5]], 0.1)),
    ('Rectangle(kappa<0)', lambda: call(RECT, dict(kappa=-1.0, Nsum=10), [[0.5], [0.5]], 0.1)),
    ('CylindricalSandwich(a>b)', lambda: call(CYL, dict(a=0.9, Nsum=2, Msum=2), [[0.5], [0.5]], 0.1)),
    ('Mader(gamma=1)', lambda: call(MADER, dict(gamma=1.0), [0.5, 2.5], 6.25e-6)),
    ('Mader(d_cj=0)', lambda: call(MADER, dict(d_cj=0.0), [0.5, 2.5], 6.25e-6)),
    ('IGEOS_Solver(rl=0)', lambda: call(RIG, dict(rl=0.0), [0.2, 0.8], 0.25)),
    ('IGEOS_Solver(rl<0)', lambda: call(RIG, dict(rl=-1.0), [0.2, 0.8], 0.25)),
    ('IGEOS_Solver(gl=1)', lambda: call(RIG, dict(gl=1.0), [0.2, 0.8], 0.25)),
    ('IGEOS_Solver(xmin>xmax)', lambda: call(RIG, dict(xmin=1.0, xmax=0.0), [0.2, 0.8], 0.25)),
    ('Riemann2D(subsonic)', lambda: call(R2D, dict(bottom_state=[1., 1., 0.8, 0., 1.4]), [[1.0, 0.0]], 0.25)),
    ('Riemann2D(M=1)', lambda: call(R2D, dict(bottom_state=[1., 1., 1.0, 0., 1.4]), [[1.0, 0.0]], 0.25)),
    ('Riemann2D(x<0)', lambda: call(R2D, {}, [[-1.0, 0.5], [-1.0, -0.5]], 0.25)),
    ('NohBlackBoxEos(geometry=1, symmetry=2)', lambda: ('ctor', outcome(lambda: bbnoh(geometry=1, symmetry=2)))),
    ('ED_Solver(gamma=1)', lambda: ('ctor', outcome(lambda: cls_of(RAD + 'ED_Solver')(gamma=1.0)))),
    ('ED_Solver(M0=-1.2)', lambda: ('ctor', outcome(lambda: cls_of(RAD + 'ED_Solver')(M0=-1.2)))),
]


def observations(rng, budget, deep, replay=None):
    res = dict(evaluations=0, failures=[], samples=[], worst=None, distinct_nontrivial=0)
    table = {}
    for label, fn in OBSERVATIONS:
        try:
            r = fn()
        except Exception as ex:          # the probe itself must never take the check down
            r = ('probe-error', type(ex).__name__)
        res['evaluations'] += 1
        res['distinct_nontrivial'] += 1
        if r[0] == 'raise':
            table[label] = 'raises %s' % r[1]
        elif r[0] == 'ctor':
            table[label] = 'constructor: %s' % r[1]
        elif r[0] == 'fields':
            vals = [v for n, col in r[1].items() if not n.startswith('position') for v in col]
            table[label] = 'returns ' + ('finite numbers' if all(math.isfinite(v) for v in vals) else 'NaN/inf')
        else:
            table[label] = str(r)
    res['samples'].append(dict(oracle='c20rest.observations', undocumented_laxness=table))
    return res


FINDING_SITES = {
    'C20': ['RateStick:alpha=0', 'ExplosiveArc:alpha=0', 'ExplosiveArc:omega_out=omega_in', 'NohBlackBoxEos:u0>=0',
            'IGEOS_Solver:vacuum:NameError', 'IGEOS_Solver:problem-flag', 'GenEOS_Solver:problem-flag', 'nED_Solver:problem-flag',
            'Sn_Solver:problem-flag',
            'SuOlson:z<0', 'IGEOS_Solver:t<0', 'Hutchens1:r>b', 'Hutchens2:outside-cylinder', 'Rectangle:outside-rectangle',
            'CylindricalSandwich:outside-annulus', 'RateStick:unreached=-10.0', 'ExplosiveArc:unreached=-10.0',
            'Hutchens2:overflow:nan', 'Rectangle:overflow:nan'],
}
