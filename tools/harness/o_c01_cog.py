"""C01 oracles for the Coggeshall solvers: PDE residuals of the documented balance
equations (exactpack/solvers/cog/__init__.py) evaluated on the REAL code.

    mass      rho_t + u rho_r + rho u_r + k rho u / r                       = 0
    momentum  u_t + u u_r + (Gamma T / rho) rho_r + Gamma T_r              = 0
    energy    Gamma/(gamma-1) (T_t + u T_r) + Gamma T (u_r + k u / r)
                + (F_r + k F / r) / rho                                     = 0
              F = -(c lam0 rho^alpha T^beta / 3) d/dr (a T^4)

All derivatives are 4th-order central finite differences of the public solver
call `solver(points, t)` in r and t (the flux divergence is a nested difference
on a 9-point stencil).  A residual is scaled by the largest of its terms; a
candidate failure is recomputed with the step halved and is reported only if it
persists.  Tolerances are calibrated on the unchanged tree (10x margin over the
largest scaled residual seen in 2 000 random cases per solver).

`cog(n)` returns an oracle checking all three equations of Cog<n>;
`cog(n, eq='mass'|'momentum'|'energy')` one of them;
`cog(n, spec=dict(...))` lets another work package describe a solver that is not
in `SPEC` (see `SPEC` for the keys).  Failure sites are `Cog<n>:<equation>`
(`Cog<n>:energy.hydro` / `Cog<n>:energy.flux` when the documentation makes the two
parts vanish separately).
"""
import contextlib
import inspect
import io
import math
import re

import numpy as np

from . import oracle as O
from py2lean.trace import load
from .corr import sample_params

C_LIGHT = 2.997e10      # cm/s            (cog10.py, cog13.py ...: `c = 2.997e10`)
A_RAD = 1.3720e+02      # erg cm^-3 eV^-4 (`a = 1.3720e+02`)
GEOM = [1, 2, 3]

# tolerance on the scaled residual; largest value seen on the unchanged tree is
# recorded next to each entry of CALIBRATED below (run `python -m harness.o_c01_cog`)
TOL_DEFAULT = 1e-6


def _k(p):
    return p.get('geometry', 3) - 1.0


# per solver:
#   params   spec for corr.sample_params (documented ranges, T > 0 where the flux needs it)
#   t        (lo, hi) of the sampled time, or a function (rng, params) -> t
#   gamma,k  functions of the full parameter dict (default: p['gamma'], geometry - 1)
#   flux     None (pure hydrodynamic problem, lam0 = 0) or dict(alpha=fn, beta=fn, lam0=fn)
#   split    True when the documentation makes hydrodynamic part and flux divergence vanish separately
#   r        (lo, hi) of the sampled positions, or a function (rng, params, t) -> list of positions
#            (e.g. to stay away from a reported discontinuity)
#   valid    optional predicate (params, r, t) -> bool: points where it is False are skipped
_R = (0.5, 3.0)
_RT = (0.5, 3.0)
SPEC = {
    1: dict(params=dict(geometry=GEOM, gamma=(1.1, 3.0), rho0=_RT, temp0=_RT, b=(-2.0, 3.0), Gamma=(10.0, 60.0)),
            t=(0.2, 2.0)),
    2: dict(params=dict(geometry=GEOM, gamma=(1.1, 3.0), rho0=_RT, b=(-1.5, 3.0), Gamma=(10.0, 60.0)),
            t=(0.2, 2.0)),
    3: dict(params=dict(geometry=GEOM, rho0=_RT, b=(-2.0, 2.0), v=(0.2, 0.9), Gamma=(10.0, 60.0)),
            t=(-1.0, 1.0), gamma=lambda p: (_k(p) - 1.0) / (_k(p) + 1.0)),
    4: dict(params=dict(geometry=GEOM, gamma=lambda rng, o: rng.choice([rng.uniform(0.2, 0.9), rng.uniform(1.1, 2.5)]),
                        rho0=_RT, u0=(0.5, 3.0), Gamma=(10.0, 60.0)),
            t=(-1.0, 1.0)),
    5: dict(params=dict(rho0=_RT, u0=(0.5, 3.0), Gamma=(10.0, 60.0)),
            t=(-1.0, 1.0), gamma=lambda p: 0.5, k=lambda p: 2.0),
    6: dict(params=dict(geometry=GEOM, rho0=_RT, tau=(1.0, 2.0), b=(-1.5, 3.0), Gamma=(10.0, 60.0)),
            t=lambda rng, p: p['tau'] * rng.uniform(-0.8, 0.8),
            gamma=lambda p: (_k(p) + 3.0) / (_k(p) + 1.0)),
    7: dict(params=dict(geometry=GEOM, tau=(1.0, 2.0), b=(-1.0, 2.5), R0=(1.5, 3.0), Ri=(0.05, 0.3), Gamma=(10.0, 60.0)),
            t=lambda rng, p: p['tau'] * rng.uniform(0.05, 0.8),
            gamma=lambda p: (_k(p) + 3.0) / (_k(p) + 1.0)),
    8: dict(params=dict(geometry=GEOM, gamma=(1.1, 3.0), alpha=(-2.0, 2.0), beta=(1.0, 3.0), rho0=_RT, temp0=_RT,
                        Gamma=(10.0, 60.0)),
            t=(0.2, 2.0), split=True,
            flux=dict(alpha=lambda p: p['alpha'], beta=lambda p: p['beta'], lam0=lambda p: 1.0)),
    9: dict(params=dict(geometry=GEOM, gamma=(1.1, 3.0), alpha=(-2.0, -1.0), beta=(1.0, 3.0), rho0=_RT,
                        Gamma=(10.0, 60.0)),
            t=(0.2, 2.0), split=True,
            flux=dict(alpha=lambda p: p['alpha'], beta=lambda p: p['beta'], lam0=lambda p: 1.0)),
    10: dict(params=dict(geometry=[2, 3], gamma=(1.1, 3.0), beta=(1.0, 3.0), lambda0=(0.05, 0.2), rho0=_RT,
                         temp0=_RT, Gamma=(10.0, 60.0)),
             t=(-1.0, 1.0),
             flux=dict(alpha=lambda p: p['beta'] + 4.0 - 1.0 / _k(p), beta=lambda p: p['beta'],
                       lam0=lambda p: p['lambda0'])),
    11: dict(params=dict(geometry=GEOM, gamma=(1.1, 1.6), beta=(1.0, 3.0), rho0=_RT, temp0=_RT, Gamma=(10.0, 60.0)),
             t=(0.2, 2.0), split=True,
             flux=dict(alpha=lambda p: p['beta'] + 4.0 + (_k(p) - 1.0) / (2.0 - (p['gamma'] - 1.0) * (_k(p) + 1.0)),
                       beta=lambda p: p['beta'], lam0=lambda p: 1.0)),
    12: dict(params=dict(geometry=[2, 3], gamma=(0.2, 0.9), beta=(1.0, 3.0), rho0=_RT, u0=(0.5, 3.0),
                         Gamma=(10.0, 60.0)),
             t=(-1.0, 1.0), split=True,
             flux=dict(alpha=lambda p: (p['beta'] + 4.0) * (1.0 - p['gamma'])
                       + (_k(p) - 1.0) * (p['gamma'] + 1.0) / (2.0 * _k(p)),
                       beta=lambda p: p['beta'], lam0=lambda p: 1.0)),
}

# largest scaled residual seen on the unchanged tree (2 000 cases x 3 points per solver, `python -m harness.o_c01_cog`)
# -> tolerance = 10x that, floor 1e-7
CALIBRATED = {1: 3.41e-10, 2: 9.56e-11, 3: 2.33e-10, 4: 3.58e-11, 5: 1.22e-11, 6: 5.93e-09, 7: 7.42e-09,
              8: 2.21e-09, 9: 1.83e-09, 10: 1.96e-10, 11: 7.16e-10, 12: 1.62e-09}


def constants(C):
    """radiation constants hard-wired in the solver's `_run` (fallback: the package-wide values)"""
    c, a = C_LIGHT, A_RAD
    try:
        src = inspect.getsource(C._run)
    except (OSError, TypeError):
        return c, a
    m = re.search(r'^\s*c\s*=\s*([0-9][0-9.eE+\-]*)', src, re.M)
    if m:
        c = float(m.group(1))
    m = re.search(r'^\s*a\s*=\s*([0-9][0-9.eE+\-]*)', src, re.M)
    if m:
        a = float(m.group(1))
    return c, a


def _d4(f, h):
    """4th-order central first derivative from the five samples f[-2..2] (list of 5), written with
    differences of symmetric samples so that constant data differentiate to exactly 0"""
    return (8.0 * (f[3] - f[1]) - (f[4] - f[0])) / (12.0 * h)


def _fields(solver, rs, t):
    sol = solver(np.array(rs, dtype=float), t)
    out = {}
    for n in ('density', 'velocity', 'temperature'):
        col = sol[n]
        if col.dtype.kind == 'c':
            return None
        out[n] = [float(v) for v in col]
    # the RETURNED energy field (seeded C01-10: right temperature, energy built with another geometry's gamma)
    if 'specific_internal_energy' in sol.dtype.names and sol['specific_internal_energy'].dtype.kind == 'f':
        out['sie'] = [float(v) for v in sol['specific_internal_energy']]
    return out


def residuals(solver, r, t, hr, ht, Gam, gam, k, flux, c, a):
    """scaled residuals at one point: dict eq -> (scaled residual, raw residual, scale) or None when the
    solver gives no real finite data on the stencil"""
    rs = [r + j * hr for j in range(-4, 5)]
    if rs[0] <= 0:
        return None
    F0 = _fields(solver, rs, t)
    if F0 is None:
        return None
    T_ = []
    for j in (-2, -1, 1, 2):
        Fj = _fields(solver, [r], t + j * ht)
        if Fj is None:
            return None
        T_.append(Fj)
    vals = [v for n in F0 for v in F0[n]] + [v for Fj in T_ for n in Fj for v in Fj[n]]
    if not all(map(math.isfinite, vals)):
        return None

    def dt(n):
        return _d4([T_[0][n][0], T_[1][n][0], F0[n][4], T_[2][n][0], T_[3][n][0]], ht)

    def dr(n, j=0):
        return _d4(F0[n][4 + j - 2:4 + j + 3], hr)

    rho, u, T = F0['density'][4], F0['velocity'][4], F0['temperature'][4]
    if rho == 0:
        return None
    out = {}
    # floors of the scales: the geometric term with k replaced by 1 (so that k = 0 does not turn
    # rounding noise of constant fields into a relative error of order one)
    floor = {'mass': abs(rho * u / r), 'momentum': 0.0, 'energy': abs(Gam * T * u / r),
             'energy.hydro': abs(Gam * T * u / r)}
    terms = [dt('density'), u * dr('density'), rho * dr('velocity'), k * rho * u / r]
    out['mass'] = terms
    terms = [dt('velocity'), u * dr('velocity'), Gam * T / rho * dr('density'), Gam * dr('temperature')]
    out['momentum'] = terms
    hyd = [Gam / (gam - 1.0) * dt('temperature'), Gam / (gam - 1.0) * u * dr('temperature'),
           Gam * T * dr('velocity'), Gam * T * k * u / r]
    if flux is None:
        out['energy'] = hyd
        if 'sie' in F0 and all('sie' in Fj for Fj in T_):
            # the same balance written with the returned specific internal energy: e_t + u e_r + (p/rho)(u_r + k u/r) = 0
            out['energy.sie'] = [dt('sie'), u * dr('sie'), Gam * T * dr('velocity'), Gam * T * k * u / r]
            floor['energy.sie'] = floor['energy']
    else:
        al, be, lam0 = flux
        Fl = []
        for j in range(-2, 3):
            rj, Tj = F0['density'][4 + j], F0['temperature'][4 + j]
            if rj <= 0 or Tj <= 0:
                return dict(mass=out['mass'], momentum=out['momentum'])      # flux undefined: no energy data
            dT4 = a * 4.0 * Tj ** 3 * dr('temperature', j)
            Fl.append(-(c * lam0 * rj ** al * Tj ** be / 3.0) * dT4)
        fl = [_d4(Fl, hr) / rho, k * Fl[2] / r / rho]
        out['energy'] = hyd + fl
        out['energy.hydro'] = hyd
        out['energy.flux'] = fl
        floor['energy.flux'] = abs(Fl[2] / r / rho)
        floor['energy'] = max(floor['energy'], floor['energy.flux'])
        if 'sie' in F0 and all('sie' in Fj for Fj in T_):
            out['energy.sie'] = [dt('sie'), u * dr('sie'), Gam * T * dr('velocity'), Gam * T * k * u / r] + fl
            floor['energy.sie'] = floor['energy']
    res = {}
    for eq, terms in out.items():
        raw = sum(terms)
        scale = max(max(abs(x) for x in terms), floor[eq])
        res[eq] = (abs(raw) / scale if scale > 0 else 0.0, raw, scale)
    return res


def cog(n, eq=None, spec=None, tol=None):
    """oracle for Cog<n>; `eq` restricts to one equation ('mass' | 'momentum' | 'energy')"""
    cls = 'exactpack.solvers.cog.cog%d:Cog%d' % (n, n)
    _, C = load(cls)
    sp = spec or SPEC[n]
    gamf = sp.get('gamma', lambda p: p['gamma'])
    kf = sp.get('k', _k)
    fx = sp.get('flux')
    split = sp.get('split', False)
    c, a = constants(C)
    TOL = tol if tol is not None else max(1e-7, 10.0 * CALIBRATED.get(n, TOL_DEFAULT / 10.0))

    def full(p):
        return {**{q: getattr(C, q) for q in C.parameters if hasattr(C, q)}, **p}

    def gen(rng):
        p = sample_params(C, sp['params'], rng)
        tt = sp.get('t', (0.2, 2.0))
        t = tt(rng, full(p)) if callable(tt) else rng.uniform(*tt)
        rr = sp.get('r', _R)
        pts = sorted(rr(rng, full(p), t)) if callable(rr) else sorted(rng.uniform(*rr) for _ in range(3))
        return dict(cls=cls, params=p, pts=pts, t=t)

    def wanted(e):
        if eq is None:
            return e in ('mass', 'momentum', 'energy', 'energy.sie') or (split and e in ('energy.hydro', 'energy.flux'))
        if eq == 'energy':
            return e in ('energy', 'energy.sie') or (split and e in ('energy.hydro', 'energy.flux'))
        return e == eq

    def at(solver, fp, r, t, scale_h):
        hr = 1e-3 * r * scale_h
        ht = 1e-3 * max(abs(t), 0.2) * scale_h
        flux = None if fx is None else (fx['alpha'](fp), fx['beta'](fp), fx['lam0'](fp))
        try:
            with contextlib.redirect_stdout(io.StringIO()):       # so do some `_run`s
                return residuals(solver, r, t, hr, ht, fp['Gamma'], gamf(fp), kf(fp), flux, c, a)
        except Exception:
            return None

    def check(case, worst=None):
        try:
            with contextlib.redirect_stdout(io.StringIO()):       # the constructors print range warnings
                solver = O.construct(case['cls'], case['params'])
        except Exception:
            return None
        fp = full(case['params'])
        for r in case['pts']:
            if 'valid' in sp and not sp['valid'](fp, r, case['t']):
                continue
            res = at(solver, fp, r, case['t'], 1.0)
            if res is None:
                continue
            for e, (s, raw, scale) in res.items():
                if not wanted(e):
                    continue
                if e == 'energy.sie' and ('energy' not in res or res['energy'][0] > TOL):
                    continue      # reported only where the balance holds for Gamma T / (gamma - 1): the energy FIELD is what differs
                if worst is not None:
                    worst[e] = max(worst.get(e, 0.0), s)
                if s > TOL:
                    res2 = at(solver, fp, r, case['t'], 0.5)        # confirm with the step halved
                    if res2 is None or e not in res2 or res2[e][0] <= TOL:
                        continue
                    return dict(site='Cog%d:%s' % (n, e),
                                detail='r=%r t=%r scaled residual %.3e (h/2: %.3e) raw %.6e largest term %.6e tol %.1e'
                                       % (r, case['t'], s, res2[e][0], raw, scale, TOL))
        return None
    orc = O.make(gen, check, 'c01.cog%d%s' % (n, '.' + eq if eq else ''))
    orc.gen, orc.check = gen, check
    return orc


def calibrate(ns=None, cases=2000, seed=12345):
    """largest scaled residual per solver on the current tree (used to fill CALIBRATED)"""
    import random
    import warnings
    out = {}
    for n in (ns or sorted(SPEC)):
        orc = cog(n, tol=float('inf'))
        rng = random.Random(seed + n)
        worst = {}
        with warnings.catch_warnings():
            warnings.simplefilter('ignore')
            with np.errstate(all='ignore'):
                for _ in range(cases):
                    orc.check(orc.gen(rng), worst)
        out[n] = worst
    return out


if __name__ == '__main__':
    import sys
    ns = [int(x) for x in sys.argv[1:]] or None
    for n, w in calibrate(ns).items():
        print(n, {k: float('%.2e' % v) for k, v in sorted(w.items())}, 'max %.2e' % max(w.values()))
