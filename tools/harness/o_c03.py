"""C03 oracles: thermodynamic fields of one call satisfy the declared EOS (real code)."""
import math

from . import oracle as O
from py2lean.targets import COG_PARAMS, COG
from py2lean.trace import load
from .corr import sample_params

TOL = 1e-9


def _k(p):
    return p.get('geometry', 3) - 1


COG_GAMMA = {3: lambda p: (_k(p) - 1.) / (_k(p) + 1.), 5: lambda p: 0.5, 6: lambda p: (_k(p) + 3.) / (_k(p) + 1.),
             7: lambda p: (_k(p) + 3.) / (_k(p) + 1.), 18: lambda p: (_k(p) + 3.) / (_k(p) + 1.), 21: lambda p: 5.0}


def gamma_law(cls, spec, r=(0.05, 3.0), t=(0.05, 1.0), gamma=lambda p: p['gamma'], name=None):
    name = name or cls.split(':')[1]
    _, C = load(cls)

    def gen(rng):
        p = sample_params(C, spec, rng)
        return dict(cls=cls, params=p, pts=sorted(rng.uniform(*r) for _ in range(6)), t=rng.uniform(*t))

    def check(c):
        f = O.try_fields(c['cls'], c['params'], c['pts'], c['t'])
        if f is None:
            return None
        g = gamma({**{k: getattr(C, k) for k in C.parameters if hasattr(C, k)}, **c['params']})
        for i in range(len(c['pts'])):
            p, rho, e = f['pressure'][i], f['density'][i], f['specific_internal_energy'][i]
            if not all(map(math.isfinite, (p, rho, e))):
                continue
            err = O.relerr(p, (g - 1) * rho * e)
            if err > TOL:
                return dict(site='%s:p=(gamma-1)*rho*e' % name,
                            detail='x=%r p=%r (gamma-1)rho e=%r' % (c['pts'][i], p, (g - 1) * rho * e))
        return None
    return O.make(gen, check, 'c03.gamma_law.' + name)


def coggeshall(n):
    cls = 'exactpack.solvers.cog.cog%d:Cog%d' % (n, n)
    _, C = load(cls)
    gam = COG_GAMMA.get(n, lambda p: p['gamma'])

    def gen(rng):
        p = sample_params(C, COG_PARAMS.get(n), rng)
        return dict(cls=cls, params=p, pts=sorted(rng.uniform(0.2, 3.0) for _ in range(6)), t=rng.uniform(0.05, 0.6))

    def check(c):
        f = O.try_fields(c['cls'], c['params'], c['pts'], c['t'])
        if f is None:
            return None
        full = {**{k: getattr(C, k) for k in C.parameters if hasattr(C, k)}, **c['params']}
        g, G = gam(full), full['Gamma']
        for i in range(len(c['pts'])):
            p, rho, e, T = (f[k][i] for k in ('pressure', 'density', 'specific_internal_energy', 'temperature'))
            if not all(map(math.isfinite, (p, rho, e, T))):
                continue
            if O.relerr(p, G * rho * T) > TOL:
                return dict(site='Cog%d:p=Gamma*rho*T' % n, detail='x=%r p=%r Gamma rho T=%r' % (c['pts'][i], p, G * rho * T))
            if rho != 0 and O.relerr(e, G * T / (g - 1)) > TOL:
                return dict(site='Cog%d:e=Gamma*T/(gamma-1)' % n, detail='x=%r e=%r Gamma T/(gamma-1)=%r' % (c['pts'][i], e, G * T / (g - 1)))
        return None
    return O.make(gen, check, 'c03.cog%d' % n)


GEOM = [1, 2, 3]
noh = gamma_law('exactpack.solvers.noh.noh1:Noh', dict(geometry=GEOM, gamma=(1.05, 3.0), u0=(-3.0, -0.2), rho0=(0.2, 5.0)),
                r=(0.01, 2.0), t=(0.05, 2.0))
noh2 = gamma_law('exactpack.solvers.noh2.noh2:Noh2', dict(geometry=GEOM, gamma=(1.05, 3.0), e0=(0.2, 3.0), rho0=(0.2, 5.0)),
                 r=(0.01, 2.0), t=(0.0, 0.98))
noh2cog = gamma_law('exactpack.solvers.noh2.noh2_cog:Noh2Cog', dict(geometry=GEOM, gamma=(1.05, 3.0), e0=(0.2, 3.0), rho0=(0.2, 5.0)),
                    r=(0.01, 2.0), t=(0.0, 0.98))
cog = {n: coggeshall(n) for n in COG}
