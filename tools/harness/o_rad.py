"""Oracles and ties of the work package `rad`: Su-Olson (C18), 2-D steady Riemann (C19),
radiative shocks (C12) and their shares of C03 / C17.

Oracles evaluate the property on the REAL code (public calls / solver attributes); ties compare a
generated Float twin with the real function on the same inputs.  They are tests that support the
proofs (they cover the numerical atoms: quadrature, root solves, ODE interiors), never a substitute."""
import importlib
import json
import math
import os
import warnings

import numpy as np

from . import oracle as O
from . import lean_io

ROOT = os.path.dirname(os.path.dirname(os.path.dirname(os.path.abspath(__file__))))


def _manifest(name):
    with open(os.path.join(ROOT, 'lean', 'EPV', 'Gen', 'gen_manifest.json')) as f:
        return json.load(f)[name]


def _close(a, b, rtol=1e-11, atol=1e-300):
    fa, fb = math.isfinite(a), math.isfinite(b)
    if not fa or not fb:
        return (not fa) and (not fb)
    return abs(a - b) <= rtol * max(abs(a), abs(b)) + atol


def twin_tie(name, cases, real, rtol=1e-11):
    """cases: list of dict symbol -> float ; real(case) -> list of floats (model field order).
    Runs the Float twin `name` in Lean on every case and compares with the real code."""
    ent = _manifest(name)
    order = ent['params'] + ent['pvars'] + ([ent['tvar']] if ent['tvar'] else [])
    lines = [name + ' ' + ' '.join(lean_io.bits(c[a]) for a in order) for c in cases]
    outs = lean_io.run_lines(lines)
    st = dict(evaluations=0, distinct_nontrivial=0, mismatches=[], samples=[], leaf_hist={})
    seen = set()
    for c, line in zip(cases, outs):
        tag, mv = lean_io.parse_result(line)
        st['evaluations'] += 1
        st['leaf_hist'][tag] = st['leaf_hist'].get(tag, 0) + 1
        try:
            with warnings.catch_warnings():
                warnings.simplefilter('ignore')
                with np.errstate(all='ignore'):
                    rv = [float(v) for v in real(c)]
            rtag = 'ok'
        except Exception as ex:        # the real code raised
            rv, rtag = [], 'raise:' + type(ex).__name__
        bad = None
        if tag.startswith('ok'):
            if rtag != 'ok':
                if not any(not math.isfinite(v) for v in mv):
                    bad = 'model %s, code %s' % (tag, rtag)
            elif len(rv) != len(mv):
                bad = 'field count: code %d model %d' % (len(rv), len(mv))
            else:
                for i, (a, b) in enumerate(zip(rv, mv)):
                    if not _close(a, b, rtol):
                        bad = 'field %s: code %r model %r' % (ent['fields'][i], a, b)
                        break
                if line not in seen and all(math.isfinite(v) for v in rv):
                    seen.add(line)
        elif tag.startswith('raise'):
            if rtag != 'raise:' + tag.split(':')[2]:
                bad = 'model %s, code %s' % (tag, rtag)
        elif tag.startswith('nan'):
            if rtag == 'ok' and all(math.isfinite(v) for v in rv):
                bad = 'model nan, code finite'
        else:
            bad = 'driver answered %r' % tag
        if bad:
            st['mismatches'].append(dict(model=name, case=c, why=bad))
        if len(st['samples']) < 1:
            st['samples'].append(dict(model=name, case=c, outcome=tag))
    st['distinct_nontrivial'] = len(seen)
    return st


def merge_ties(*fns):
    def tie(rng, deep):
        tot = dict(evaluations=0, distinct_nontrivial=0, mismatches=[], samples=[])
        for f in fns:
            st = f(rng, deep)
            tot['evaluations'] += st['evaluations']
            tot['distinct_nontrivial'] += st['distinct_nontrivial']
            tot['mismatches'] += st['mismatches']
            tot['samples'] += st['samples'][:1]
        return tot
    return tie


# =====================================================================================
# C18  Su-Olson
# =====================================================================================
SUO = 'exactpack.solvers.suolson.suolson:SuOlson'
CLIGHT = 2.99792458e10
ASOL = 4.0 * 5.67051e-5 / CLIGHT
KEV = 8.617385e-5
RT3 = 1.7320508075688772
# the constants of the theorems (EPV.C18.asol, a4c, kev, cLight = a4c / (4 asol))
TH_ASOL = 4795467806665221 / 633825300114114700748351602688
TH_A4C = 2092048934748215 / 2305843009213693952
TH_KEV = 6358507827184943 / 73786976294838206464
TH_CLIGHT = TH_A4C / (4 * TH_ASOL)


def _timmes():
    return importlib.import_module('exactpack.solvers.suolson.timmes')


def su_family_tie(name):
    from py2lean.targets.t_rad import SU_FAMILIES
    gamma, theta, parts = SU_FAMILIES[name]

    def tie(rng, deep):
        T = _timmes()
        cases = []
        n = 400 if deep else 60
        for i in range(n):
            k = i % 6
            if k == 0:       # at and next to the clamps
                eta = rng.choice([0.0, 1e-14, 2e-14, 1e-15, 1.0, 1.0 - 1e-14, 1.0 - 2e-14, 1.0 - 1e-13, 1e-13])
            elif k == 1:
                eta = 10 ** rng.uniform(-16, -1)
            elif k == 2:
                eta = 1.0 - 10 ** rng.uniform(-16, -1)
            else:
                eta = rng.uniform(0.0, 1.0)
            eps = rng.choice([0.1, 1.0, 10 ** rng.uniform(-3, 2), 10 ** rng.uniform(-14, -10)])
            cases.append(dict(eta=eta, epsilon=eps, posx=rng.uniform(0.0, 20.0) if k else 0.0,
                              tau=10 ** rng.uniform(-3, 2)))

        def real(c):
            T.posx, T.tau, T.epsilon, T.jwant = c['posx'], c['tau'], c['epsilon'], 1
            return [getattr(T, gamma)(c['eta'], c['epsilon']), getattr(T, theta)(c['eta'], c['epsilon'])] \
                + [getattr(T, f)(c['eta']) for f in parts]
        return twin_tie(name, cases, real, rtol=1e-10)
    return tie


def _su_dimless(s, x, tau):
    """(u, v) derived from the returned temperatures of the PUBLIC call, in the dimensionless
    variables of the property: z = x / (sqrt3 kappa), t = tau alpha / (4 a c kappa)"""
    z = x / (RT3 * s.opac)
    t = tau * s.alpha / (4.0 * ASOL * CLIGHT * s.opac)
    sol = s(np.array([z]), t)
    return (float(sol.temperature_rad[0]) / s.trad_bc_ev) ** 4, (float(sol.temperature_mat[0]) / s.trad_bc_ev) ** 4


def _su_case(rng, xr=(0.15, 5.0)):
    eps = rng.choice([0.1, 1.0, 10 ** rng.uniform(-1, 0.4)])
    return dict(eps=eps, opac=rng.choice([1.0, rng.uniform(0.4, 3.0)]),
                trad_bc_ev=rng.choice([1.0e3, rng.uniform(100., 3000.)]),
                x=rng.uniform(*xr), tau=10 ** rng.uniform(-1.7, 1.3))


def _su_solver(c):
    _, C = O.load(SUO)
    return C(opac=c['opac'], alpha=4.0 * ASOL / c['eps'], trad_bc_ev=c['trad_bc_ev'])


def _su_residuals(s, eps, x, tau, h):
    hx, ht = h, h * tau
    u0, v0 = _su_dimless(s, x, tau)
    up, _ = _su_dimless(s, x + hx, tau)
    um, _ = _su_dimless(s, x - hx, tau)
    ut, vt = _su_dimless(s, x, tau + ht)
    utm, vtm = _su_dimless(s, x, tau - ht)
    uxx = (up - 2 * u0 + um) / hx ** 2
    u_t = (ut - utm) / (2 * ht)
    v_t = (vt - vtm) / (2 * ht)
    scale = abs(uxx) + abs(u0) + abs(eps * u_t) + abs(v0)
    return eps * u_t - uxx - (v0 - u0), v_t - (u0 - v0), scale, u0


def _su_pde_check(c):
    try:
        s = _su_solver(c)
        h = min(0.05, c['x'] / 3)
        r1a, r2a, sc, u0 = _su_residuals(s, c['eps'], c['x'], c['tau'], h)
        r1b, r2b, sc, u0 = _su_residuals(s, c['eps'], c['x'], c['tau'], h / 2)
    except Exception:
        return None
    if not all(map(math.isfinite, (r1a, r2a, r1b, r2b, sc))) or u0 < 1e-4:
        return None         # below the noise floor of the quadrature (tolerances 1e-6 … 1e-8)
    # Richardson: the central differences are second order, so (4 r(h/2) - r(h)) / 3 removes the
    # truncation error; a genuine residual does not shrink under step halving
    e1, e2 = (4 * r1b - r1a) / 3, (4 * r2b - r2a) / 3
    tol = 2e-3 * max(sc, 0.05)
    if abs(e1) > tol and abs(r1b) > 0.5 * abs(r1a):
        return dict(site='SuOlson:radiation-equation',
                    detail='eps u_tau - u_xx - (v-u) = %.3e (h) %.3e (h/2), scale %.3e at x=%r tau=%r' % (r1a, r1b, sc, c['x'], c['tau']))
    if abs(e2) > tol and abs(r2b) > 0.5 * abs(r2a):
        return dict(site='SuOlson:material-equation',
                    detail='v_tau - (u-v) = %.3e (h) %.3e (h/2), scale %.3e at x=%r tau=%r' % (r2a, r2b, sc, c['x'], c['tau']))
    return None


su_pde = O.make(_su_case, _su_pde_check, 'c18.suolson.pde')


def _su_marshak_check(c):
    try:
        s = _su_solver(c)
        vals = []
        for h in (0.01, 0.005):
            u0, _ = _su_dimless(s, 0.0, c['tau'])
            u1, _ = _su_dimless(s, h, c['tau'])
            u2, _ = _su_dimless(s, 2 * h, c['tau'])
            vals.append(u0 - 2.0 / math.sqrt(3.0) * (-3 * u0 + 4 * u1 - u2) / (2 * h))
    except Exception:
        return None
    if not all(map(math.isfinite, vals)):
        return None
    e = (4 * vals[1] - vals[0]) / 3 - 1.0
    if abs(e) > 2e-3 and abs(vals[1] - 1.0) > 0.5 * abs(vals[0] - 1.0):
        return dict(site='SuOlson:marshak', detail='u - (2/sqrt3) u_x at x=0 is %r, %r (tau=%r)' % (vals[0], vals[1], c['tau']))
    return None


su_marshak = O.make(lambda rng: _su_case(rng), _su_marshak_check, 'c18.suolson.marshak')


def _su_conv_check(c):
    """the returned temperatures are k_B (u T_bc^4)^(1/4) with u = usolution(sqrt3 kappa z, 4 a c kappa t / alpha, 4a/alpha)
    evaluated with the constants of the theorem"""
    T = _timmes()
    try:
        s = _su_solver(c)
        z = c['x'] / (RT3 * s.opac)
        t = c['tau'] * s.alpha / (4.0 * ASOL * CLIGHT * s.opac)
        sol = s(np.array([z]), t)
        x = math.sqrt(3.0) * s.opac * z
        tau = 4 * TH_ASOL * TH_CLIGHT * s.opac / s.alpha * t
        eps = 4 * TH_ASOL / s.alpha
        u = T.usolution(x, tau, eps)
        v = T.vsolution(x, tau, eps, u)
    except Exception:
        return None
    for nm, w, got in (('rad', u, float(sol.temperature_rad[0])), ('mat', v, float(sol.temperature_mat[0]))):
        if w <= 0 or not math.isfinite(got):
            continue
        # compare in u-space: the quadrature answers to ~1e-8 absolute and reacts to a last-bit change of tau
        got_u = (got / TH_KEV) ** 4 / (s.trad_bc_ev / TH_KEV) ** 4
        if abs(got_u - w) > 1e-9 * abs(w) + 2e-8:
            return dict(site='SuOlson:conversion-' + nm,
                        detail='(T/T_bc)^4 of the returned temperature = %r, dimensionless solution at the stated arguments = %r' % (got_u, w))
    return None


su_conversion = O.make(lambda rng: _su_case(rng, xr=(0.0, 8.0)), _su_conv_check, 'c18.suolson.conversion')


def _su_table_gen(rng):
    return dict(table=rng.choice(['U0p1', 'V0p1', 'U1', 'V1']), row=rng.randrange(11), opac=rng.choice([1.0, rng.uniform(0.4, 3.0)]),
                trad_bc_ev=rng.choice([1.0e3, rng.uniform(100., 3000.)]))


def _su_table_check(c):
    """the published tables of Su & Olson (1996) as typed in the test suite, against the PUBLIC call"""
    try:
        TS = importlib.import_module('exactpack.tests.test_suolson')
    except Exception:
        return None
    cls = {'U0p1': 'TestSuOlsonDimensionlessUEps0p1', 'V0p1': 'TestSuOlsonDimensionlessVEps0p1',
           'U1': 'TestSuOlsonDimensionlessUEps1', 'V1': 'TestSuOlsonDimensionlessVEps1'}[c['table']]
    K = getattr(TS, cls, None)
    if K is None:
        return None
    eps = 0.1 if '0p1' in c['table'] else 1.0
    tau, expected = K.test_data[c['row']]
    s = _su_solver(dict(opac=c['opac'], eps=eps, trad_bc_ev=c['trad_bc_ev']))
    for x, want in zip(K.xpos, expected):
        try:
            u, v = _su_dimless(s, float(x), float(tau))
        except Exception:
            continue
        got = u if c['table'][0] == 'U' else v
        if math.isfinite(got) and abs(got - want) > 3e-4:
            return dict(site='SuOlson:table-' + c['table'], detail='x=%r tau=%r: %r, published %r' % (x, tau, got, want))
    return None


su_table = O.make(_su_table_gen, _su_table_check, 'c18.suolson.table')


def _su_bounds_check(c):
    """C17 share: 0 <= v <= u <= 1, u and v decrease with x and increase with tau"""
    try:
        s = _su_solver(c)
        xs = [c['x'] * k for k in (0.0, 0.5, 1.0, 1.5, 2.5)]
        uv = [_su_dimless(s, x, c['tau']) for x in xs]
        uv2 = [_su_dimless(s, x, c['tau'] * 1.5) for x in xs]
    except Exception:
        return None
    # calibrated on the unchanged tree: the quadrature noise of v in the far tail reaches 2e-5 (v - u), 8e-6 (space),
    # 3e-6 (time) over 400 random cases; 10x margin, the same size as the test suite's own atol = 1.5e-4
    tol = 2e-4
    for x, (u, v), (u2, v2) in zip(xs, uv, uv2):
        if not all(map(math.isfinite, (u, v, u2, v2))):
            continue
        if u > 1 + tol or v > u + tol or v < -tol or u < -tol:
            return dict(site='SuOlson:bounds', detail='x=%r tau=%r u=%r v=%r' % (x, c['tau'], u, v))
        if u2 < u - tol or v2 < v - tol:
            return dict(site='SuOlson:monotone-in-time', detail='x=%r tau=%r: u %r -> %r, v %r -> %r' % (x, c['tau'], u, u2, v, v2))
    for (u, v), (un, vn) in zip(uv, uv[1:]):
        if all(map(math.isfinite, (u, v, un, vn))) and (un > u + tol or vn > v + tol):
            return dict(site='SuOlson:monotone-in-space', detail='tau=%r: u %r -> %r, v %r -> %r' % (c['tau'], u, un, v, vn))
    return None


su_bounds = O.make(lambda rng: _su_case(rng, xr=(0.2, 6.0)), _su_bounds_check, 'c17.suolson.bounds')


def su_assembly_tie(rng, deep):
    """SuUsol / SuVsol are traced with the quadratures as atoms; the same shims applied to the REAL functions
    on floats must reproduce the model's formula  1 - 2k I1 - k e^{-tau} I2  (resp. u - 2k I3 + k e^{-tau} I4)"""
    T = _timmes()
    st = dict(evaluations=0, distinct_nontrivial=0, mismatches=[], samples=[])
    k = 1241482303990085 / 2251799813685248
    saved = (T.quad, T.brentq)
    try:
        for i in range(200 if deep else 40):
            I = {n: rng.uniform(-2, 2) * rng.choice([1.0, 1e-9]) for n in ('upart1', 'upart2', 'vpart1', 'vpart2')}
            T.quad = lambda f, a, b, **kw: (I[f.__name__], 0.0)
            T.brentq = lambda f, a, b, **kw: 0.5 * (a + b)
            T.range = lambda n: range(1)
            x, tau, eps, ua = rng.uniform(0, 20), 10 ** rng.uniform(-3, 2), 10 ** rng.uniform(-2, 1), rng.uniform(0, 1)
            try:
                u = T.usolution(x, tau, eps)
                v = T.vsolution(x, tau, eps, ua)
            finally:
                del T.range
            mu = 1 - 2 * k * I['upart1'] - k * math.exp(-tau) * I['upart2']
            mv = ua - 2 * k * I['vpart1'] + k * math.exp(-tau) * I['vpart2']
            st['evaluations'] += 2
            st['distinct_nontrivial'] += 2
            if not _close(u, mu, 1e-12, 1e-15) or not _close(v, mv, 1e-12, 1e-15):
                st['mismatches'].append(dict(model='SuUsol/SuVsol', case=dict(x=x, tau=tau, eps=eps, I=I),
                                             why='code %r %r, model %r %r' % (u, v, mu, mv)))
            if not st['samples']:
                st['samples'].append(dict(model='SuUsol', case=dict(x=x, tau=tau, eps=eps)))
    finally:
        T.quad, T.brentq = saved
    return st
