"""Oracles and ties of the work package `rad`: Su-Olson (C18), 2-D steady Riemann (C19),
radiative shocks (C12) and their shares of C03 / C17.

Oracles evaluate the property on the REAL code (public calls / solver attributes); ties compare a
generated Float twin with the real function on the same inputs.  They are tests that support the
proofs (they cover the numerical atoms: quadrature, root solves, ODE interiors), never a substitute."""
import importlib
import json
import math
import os
import warnings

import numpy as np

from . import oracle as O
from . import lean_io

ROOT = os.path.dirname(os.path.dirname(os.path.dirname(os.path.abspath(__file__))))


def _manifest(name):
    with open(os.path.join(ROOT, 'lean', 'EPV', 'Gen', 'gen_manifest.json')) as f:
        return json.load(f)[name]


def _close(a, b, rtol=1e-11, atol=1e-300):
    fa, fb = math.isfinite(a), math.isfinite(b)
    if not fa or not fb:
        return (not fa) and (not fb)
    return abs(a - b) <= rtol * max(abs(a), abs(b)) + atol


def twin_tie(name, cases, real, rtol=1e-11):
    """cases: list of dict symbol -> float ; real(case) -> list of floats (model field order).
    Runs the Float twin `name` in Lean on every case and compares with the real code."""
    ent = _manifest(name)
    order = ent['params'] + ent['pvars'] + ([ent['tvar']] if ent['tvar'] else [])
    lines = [name + ' ' + ' '.join(lean_io.bits(c[a]) for a in order) for c in cases]
    outs = lean_io.run_lines(lines)
    st = dict(evaluations=0, distinct_nontrivial=0, mismatches=[], samples=[], leaf_hist={})
    seen = set()
    for c, line in zip(cases, outs):
        tag, mv = lean_io.parse_result(line)
        st['evaluations'] += 1
        st['leaf_hist'][tag] = st['leaf_hist'].get(tag, 0) + 1
        try:
            with warnings.catch_warnings():
                warnings.simplefilter('ignore')
                with np.errstate(all='ignore'):
                    rv = [float(v) for v in real(c)]
            rtag = 'ok'
        except Exception as ex:        # the real code raised
            rv, rtag = [], 'raise:' + type(ex).__name__
        bad = None
        if tag.startswith('ok'):
            if rtag != 'ok':
                if not any(not math.isfinite(v) for v in mv):
                    bad = 'model %s, code %s' % (tag, rtag)
            elif len(rv) != len(mv):
                bad = 'field count: code %d model %d' % (len(rv), len(mv))
            else:
                for i, (a, b) in enumerate(zip(rv, mv)):
                    if not _close(a, b, rtol):
                        bad = 'field %s: code %r model %r' % (ent['fields'][i], a, b)
                        break
                if line not in seen and all(math.isfinite(v) for v in rv):
                    seen.add(line)
        elif tag.startswith('raise'):
            if rtag != 'raise:' + tag.split(':')[2]:
                bad = 'model %s, code %s' % (tag, rtag)
        elif tag.startswith('nan'):
            if rtag == 'ok' and all(math.isfinite(v) for v in rv):
                bad = 'model nan, code finite'
        else:
            bad = 'driver answered %r' % tag
        if bad:
            st['mismatches'].append(dict(model=name, case=c, why=bad))
        if len(st['samples']) < 1:
            st['samples'].append(dict(model=name, case=c, outcome=tag))
    st['distinct_nontrivial'] = len(seen)
    return st


def merge_ties(*fns):
    def tie(rng, deep):
        tot = dict(evaluations=0, distinct_nontrivial=0, mismatches=[], samples=[])
        for f in fns:
            st = f(rng, deep)
            tot['evaluations'] += st['evaluations']
            tot['distinct_nontrivial'] += st['distinct_nontrivial']
            tot['mismatches'] += st['mismatches']
            tot['samples'] += st['samples'][:1]
        return tot
    return tie


# =====================================================================================
# C18  Su-Olson
# =====================================================================================
SUO = 'exactpack.solvers.suolson.suolson:SuOlson'
CLIGHT = 2.99792458e10
ASOL = 4.0 * 5.67051e-5 / CLIGHT
KEV = 8.617385e-5
RT3 = 1.7320508075688772
# the constants of the theorems (EPV.C18.asol, a4c, kev, cLight = a4c / (4 asol))
TH_ASOL = 4795467806665221 / 633825300114114700748351602688
TH_A4C = 2092048934748215 / 2305843009213693952
TH_KEV = 6358507827184943 / 73786976294838206464
TH_CLIGHT = TH_A4C / (4 * TH_ASOL)


def _timmes():
    return importlib.import_module('exactpack.solvers.suolson.timmes')


def su_family_tie(name):
    from py2lean.targets.t_rad import SU_FAMILIES
    gamma, theta, parts = SU_FAMILIES[name]

    def tie(rng, deep):
        T = _timmes()
        cases = []
        n = 400 if deep else 60
        for i in range(n):
            k = i % 6
            if k == 0:       # at and next to the clamps
                eta = rng.choice([0.0, 1e-14, 2e-14, 1e-15, 1.0, 1.0 - 1e-14, 1.0 - 2e-14, 1.0 - 1e-13, 1e-13])
            elif k == 1:
                eta = 10 ** rng.uniform(-16, -1)
            elif k == 2:
                eta = 1.0 - 10 ** rng.uniform(-16, -1)
            else:
                eta = rng.uniform(0.0, 1.0)
            eps = rng.choice([0.1, 1.0, 10 ** rng.uniform(-3, 2), 10 ** rng.uniform(-14, -10)])
            cases.append(dict(eta=eta, epsilon=eps, posx=rng.uniform(0.0, 20.0) if k else 0.0,
                              tau=10 ** rng.uniform(-3, 2)))

        def real(c):
            T.posx, T.tau, T.epsilon, T.jwant = c['posx'], c['tau'], c['epsilon'], 1
            return [getattr(T, gamma)(c['eta'], c['epsilon']), getattr(T, theta)(c['eta'], c['epsilon'])] \
                + [getattr(T, f)(c['eta']) for f in parts]
        return twin_tie(name, cases, real, rtol=1e-10)
    return tie


def _su_dimless(s, x, tau):
    """(u, v) derived from the returned temperatures of the PUBLIC call, in the dimensionless
    variables of the property: z = x / (sqrt3 kappa), t = tau alpha / (4 a c kappa)"""
    z = x / (RT3 * s.opac)
    t = tau * s.alpha / (4.0 * ASOL * CLIGHT * s.opac)
    sol = s(np.array([z]), t)
    return (float(sol.temperature_rad[0]) / s.trad_bc_ev) ** 4, (float(sol.temperature_mat[0]) / s.trad_bc_ev) ** 4


def _su_case(rng, xr=(0.15, 5.0)):
    eps = rng.choice([0.1, 1.0, 10 ** rng.uniform(-1, 0.4)])
    return dict(eps=eps, opac=rng.choice([1.0, rng.uniform(0.4, 3.0)]),
                trad_bc_ev=rng.choice([1.0e3, rng.uniform(100., 3000.)]),
                x=rng.uniform(*xr), tau=10 ** rng.uniform(-1.7, 1.3))


def _su_solver(c):
    _, C = O.load(SUO)
    return C(opac=c['opac'], alpha=4.0 * ASOL / c['eps'], trad_bc_ev=c['trad_bc_ev'])


def _su_residuals(s, eps, x, tau, h):
    hx, ht = h, h * tau
    u0, v0 = _su_dimless(s, x, tau)
    up, _ = _su_dimless(s, x + hx, tau)
    um, _ = _su_dimless(s, x - hx, tau)
    ut, vt = _su_dimless(s, x, tau + ht)
    utm, vtm = _su_dimless(s, x, tau - ht)
    uxx = (up - 2 * u0 + um) / hx ** 2
    u_t = (ut - utm) / (2 * ht)
    v_t = (vt - vtm) / (2 * ht)
    scale = abs(uxx) + abs(u0) + abs(eps * u_t) + abs(v0)
    return eps * u_t - uxx - (v0 - u0), v_t - (u0 - v0), scale, u0


def _su_pde_check(c):
    try:
        s = _su_solver(c)
        h = min(0.05, c['x'] / 3)
        r1a, r2a, sc, u0 = _su_residuals(s, c['eps'], c['x'], c['tau'], h)
        r1b, r2b, sc, u0 = _su_residuals(s, c['eps'], c['x'], c['tau'], h / 2)
    except Exception:
        return None
    if not all(map(math.isfinite, (r1a, r2a, r1b, r2b, sc))) or u0 < 1e-4:
        return None         # below the noise floor of the quadrature (tolerances 1e-6 … 1e-8)
    # Richardson: the central differences are second order, so (4 r(h/2) - r(h)) / 3 removes the
    # truncation error; a genuine residual does not shrink under step halving
    e1, e2 = (4 * r1b - r1a) / 3, (4 * r2b - r2a) / 3
    tol = 2e-3 * max(sc, 0.05)
    if abs(e1) > tol and abs(r1b) > 0.5 * abs(r1a):
        return dict(site='SuOlson:radiation-equation',
                    detail='eps u_tau - u_xx - (v-u) = %.3e (h) %.3e (h/2), scale %.3e at x=%r tau=%r' % (r1a, r1b, sc, c['x'], c['tau']))
    if abs(e2) > tol and abs(r2b) > 0.5 * abs(r2a):
        return dict(site='SuOlson:material-equation',
                    detail='v_tau - (u-v) = %.3e (h) %.3e (h/2), scale %.3e at x=%r tau=%r' % (r2a, r2b, sc, c['x'], c['tau']))
    return None


su_pde = O.make(_su_case, _su_pde_check, 'c18.suolson.pde')


def _su_marshak_check(c):
    try:
        s = _su_solver(c)
        vals = []
        for h in (0.01, 0.005):
            u0, _ = _su_dimless(s, 0.0, c['tau'])
            u1, _ = _su_dimless(s, h, c['tau'])
            u2, _ = _su_dimless(s, 2 * h, c['tau'])
            vals.append(u0 - 2.0 / math.sqrt(3.0) * (-3 * u0 + 4 * u1 - u2) / (2 * h))
    except Exception:
        return None
    if not all(map(math.isfinite, vals)):
        return None
    e = (4 * vals[1] - vals[0]) / 3 - 1.0
    if abs(e) > 2e-3 and abs(vals[1] - 1.0) > 0.5 * abs(vals[0] - 1.0):
        return dict(site='SuOlson:marshak', detail='u - (2/sqrt3) u_x at x=0 is %r, %r (tau=%r)' % (vals[0], vals[1], c['tau']))
    return None


su_marshak = O.make(lambda rng: _su_case(rng), _su_marshak_check, 'c18.suolson.marshak')


def _su_conv_check(c):
    """the returned temperatures are k_B (u T_bc^4)^(1/4) with u = usolution(sqrt3 kappa z, 4 a c kappa t / alpha, 4a/alpha)
    evaluated with the constants of the theorem"""
    T = _timmes()
    try:
        s = _su_solver(c)
        z = c['x'] / (RT3 * s.opac)
        t = c['tau'] * s.alpha / (4.0 * ASOL * CLIGHT * s.opac)
        sol = s(np.array([z]), t)
        x = math.sqrt(3.0) * s.opac * z
        tau = 4 * TH_ASOL * TH_CLIGHT * s.opac / s.alpha * t
        eps = 4 * TH_ASOL / s.alpha
        u = T.usolution(x, tau, eps)
        v = T.vsolution(x, tau, eps, u)
    except Exception:
        return None
    for nm, w, got in (('rad', u, float(sol.temperature_rad[0])), ('mat', v, float(sol.temperature_mat[0]))):
        if w <= 0 or not math.isfinite(got):
            continue
        # compare in u-space: the quadrature answers to ~1e-8 absolute and reacts to a last-bit change of tau
        got_u = (got / TH_KEV) ** 4 / (s.trad_bc_ev / TH_KEV) ** 4
        if abs(got_u - w) > 1e-9 * abs(w) + 2e-8:
            return dict(site='SuOlson:conversion-' + nm,
                        detail='(T/T_bc)^4 of the returned temperature = %r, dimensionless solution at the stated arguments = %r' % (got_u, w))
    return None


su_conversion = O.make(lambda rng: _su_case(rng, xr=(0.0, 8.0)), _su_conv_check, 'c18.suolson.conversion')


def _su_table_gen(rng):
    return dict(table=rng.choice(['U0p1', 'V0p1', 'U1', 'V1']), row=rng.randrange(11), opac=rng.choice([1.0, rng.uniform(0.4, 3.0)]),
                trad_bc_ev=rng.choice([1.0e3, rng.uniform(100., 3000.)]))


def _su_table_check(c):
    """the published tables of Su & Olson (1996) as typed in the test suite, against the PUBLIC call"""
    try:
        TS = importlib.import_module('exactpack.tests.test_suolson')
    except Exception:
        return None
    cls = {'U0p1': 'TestSuOlsonDimensionlessUEps0p1', 'V0p1': 'TestSuOlsonDimensionlessVEps0p1',
           'U1': 'TestSuOlsonDimensionlessUEps1', 'V1': 'TestSuOlsonDimensionlessVEps1'}[c['table']]
    K = getattr(TS, cls, None)
    if K is None:
        return None
    eps = 0.1 if '0p1' in c['table'] else 1.0
    tau, expected = K.test_data[c['row']]
    s = _su_solver(dict(opac=c['opac'], eps=eps, trad_bc_ev=c['trad_bc_ev']))
    for x, want in zip(K.xpos, expected):
        try:
            u, v = _su_dimless(s, float(x), float(tau))
        except Exception:
            continue
        got = u if c['table'][0] == 'U' else v
        if math.isfinite(got) and abs(got - want) > 3e-4:
            return dict(site='SuOlson:table-' + c['table'], detail='x=%r tau=%r: %r, published %r' % (x, tau, got, want))
    return None


su_table = O.make(_su_table_gen, _su_table_check, 'c18.suolson.table')


def _su_bounds_check(c):
    """C17 share: 0 <= v <= u <= 1, u and v decrease with x and increase with tau"""
    try:
        s = _su_solver(c)
        xs = [c['x'] * k for k in (0.0, 0.5, 1.0, 1.5, 2.5)]
        uv = [_su_dimless(s, x, c['tau']) for x in xs]
        uv2 = [_su_dimless(s, x, c['tau'] * 1.5) for x in xs]
    except Exception:
        return None
    # calibrated on the unchanged tree: the quadrature noise of v in the far tail reaches 2e-5 (v - u), 8e-6 (space),
    # 3e-6 (time) over 400 random cases; 10x margin, the same size as the test suite's own atol = 1.5e-4
    tol = 2e-4
    for x, (u, v), (u2, v2) in zip(xs, uv, uv2):
        if not all(map(math.isfinite, (u, v, u2, v2))):
            continue
        if u > 1 + tol or v > u + tol or v < -tol or u < -tol:
            return dict(site='SuOlson:bounds', detail='x=%r tau=%r u=%r v=%r' % (x, c['tau'], u, v))
        if u2 < u - tol or v2 < v - tol:
            return dict(site='SuOlson:monotone-in-time', detail='x=%r tau=%r: u %r -> %r, v %r -> %r' % (x, c['tau'], u, u2, v, v2))
    for (u, v), (un, vn) in zip(uv, uv[1:]):
        if all(map(math.isfinite, (u, v, un, vn))) and (un > u + tol or vn > v + tol):
            return dict(site='SuOlson:monotone-in-space', detail='tau=%r: u %r -> %r, v %r -> %r' % (c['tau'], u, un, v, vn))
    return None


su_bounds = O.make(lambda rng: _su_case(rng, xr=(0.2, 6.0)), _su_bounds_check, 'c17.suolson.bounds')


def su_assembly_tie(rng, deep):
    """SuUsol / SuVsol are traced with the quadratures as atoms; the same shims applied to the REAL functions
    on floats must reproduce the model's formula  1 - 2k I1 - k e^{-tau} I2  (resp. u - 2k I3 + k e^{-tau} I4)"""
    T = _timmes()
    st = dict(evaluations=0, distinct_nontrivial=0, mismatches=[], samples=[])
    k = 1241482303990085 / 2251799813685248
    saved = (T.quad, T.brentq)
    try:
        for i in range(200 if deep else 40):
            I = {n: rng.uniform(-2, 2) * rng.choice([1.0, 1e-9]) for n in ('upart1', 'upart2', 'vpart1', 'vpart2')}
            T.quad = lambda f, a, b, **kw: (I[f.__name__], 0.0)
            T.brentq = lambda f, a, b, **kw: 0.5 * (a + b)
            T.range = lambda n: range(1)
            x, tau, eps, ua = rng.uniform(0, 20), 10 ** rng.uniform(-3, 2), 10 ** rng.uniform(-2, 1), rng.uniform(0, 1)
            try:
                u = T.usolution(x, tau, eps)
                v = T.vsolution(x, tau, eps, ua)
            finally:
                del T.range
            mu = 1 - 2 * k * I['upart1'] - k * math.exp(-tau) * I['upart2']
            mv = ua - 2 * k * I['vpart1'] + k * math.exp(-tau) * I['vpart2']
            st['evaluations'] += 2
            st['distinct_nontrivial'] += 2
            if not _close(u, mu, 1e-12, 1e-15) or not _close(v, mv, 1e-12, 1e-15):
                st['mismatches'].append(dict(model='SuUsol/SuVsol', case=dict(x=x, tau=tau, eps=eps, I=I),
                                             why='code %r %r, model %r %r' % (u, v, mu, mv)))
            if not st['samples']:
                st['samples'].append(dict(model='SuUsol', case=dict(x=x, tau=tau, eps=eps)))
    finally:
        T.quad, T.brentq = saved
    return st


# =====================================================================================
# C19  2-D steady Riemann problem
# =====================================================================================
R2E = 'exactpack.solvers.riemann2D_2section_steadystate.ep_riemann2D_2section_steadystate:IGEOS_Solver'
R2M = 'exactpack.solvers.riemann2D_2section_steadystate.riemann2D_2section_steadystate'
R2_PRESETS = [
    ([1., 1., 2.4, 0., 1.4], [0.25, 0.5, 7.0, 0., 1.4]),          # the documented default (Hui 1999, fig. 3): R-C-S
    ([0.25, 0.5, 7.0, 0., 1.4], [1., 1., 2.4, 0., 1.4]),          # its mirror image: S-C-R
    ([1., 1., 3.0, 0., 1.4], [1.5, 1.2, 2.0, 0., 1.4]),
    ([1., 1., 2.0, 0., 1.4], [0.5, 0.7, 3.0, 0., 1.67]),
    ([2., 1., 2.5, 0., 1.3], [1., 0.8, 4.0, 0., 1.4]),
]


def _r2_case(rng, angles=False):
    b, t = [list(s) for s in rng.choice(R2_PRESETS)]
    if rng.random() < 0.6:
        for s in (b, t):
            s[0] *= rng.uniform(0.7, 1.4)
            s[1] *= rng.uniform(0.7, 1.4)
            s[2] = max(1.3, s[2] * rng.uniform(0.8, 1.25))
            s[4] = rng.choice([s[4], 1.4, 5. / 3., rng.uniform(1.15, 1.7)])
    if angles and rng.random() < 0.5:
        a = rng.uniform(-8., 8.)
        b[3], t[3] = a + rng.uniform(0., 6.), a - rng.uniform(0., 6.)     # converging or parallel streams
    return dict(bottom=b, top=t, polar=sorted(rng.uniform(-1.3, 1.3) for _ in range(8)), frac=[rng.random() for _ in range(4)])


_R2_CACHE = {}


def _r2_solve(c):
    """real public solver on points of the unit circle (polar angles c['polar'] plus points inside every fan)"""
    key = json.dumps([c['bottom'], c['top'], c['polar'], c['frac']])
    if key in _R2_CACHE:
        return _R2_CACHE[key]
    _, C = O.load(R2E)
    res = None
    try:
        with warnings.catch_warnings():
            warnings.simplefilter('ignore')
            s = C(bottom_state=list(c['bottom']), top_state=list(c['top']))
            th = list(c['polar'])
            s(np.array([[1.0, 0.0]]), 0.25)
            for k in ('BR', 'TR'):
                if k in s.angles:
                    lo, hi = float(min(s.angles[k])), float(max(s.angles[k]))
                    th += [lo + f * (hi - lo) for f in c['frac']]
            pts = np.array([[math.cos(a), math.sin(a)] for a in th])
            sol = s(pts, 0.25)
            res = (s, sol, th)
    except Exception:
        res = None
    if len(_R2_CACHE) > 200:
        _R2_CACHE.clear()
    _R2_CACHE[key] = res
    return res


def _r2_atoms_ok(s, c):
    """the numerical atoms of the solve are consistent: every side labelled S is compressed and every side labelled R is
    expanded, and the reported p* is a root of the pressure-deflection balance of the reported pattern.  Returns
    (ok, description)"""
    M = importlib.import_module(R2M)
    prob = object.__new__(M.SetupRiemannProblem)
    ps = float(s.pressure_solution)
    ang = []
    for k, st, sign in ((0, c['bottom'], -1.0), (4, c['top'], 1.0)):
        p0 = st[0]
        lab = s.morphology[k]
        if (lab == 'S' and ps < p0 * (1 - 1e-9)) or (lab == 'R' and ps > p0 * (1 + 1e-9)):
            return False, '%s side labelled %s but p* = %r, p0 = %r (pattern %s)' % ('bottom' if k == 0 else 'top', lab, ps, p0, s.morphology)
        with np.errstate(all='ignore'):
            d = float((prob.compression_states if lab == 'S' else prob.expansion_states)(ps, list(st))[0])
        ang.append(st[3] / 180. * math.pi + sign * d)
    if not (abs(ang[0] - ang[1]) <= 1e-7):
        return False, 'p* = %r is not a root of the pressure-deflection balance of pattern %s: flow angle behind the bottom wave %r, behind the top wave %r' \
            % (ps, s.morphology, ang[0], ang[1])
    return True, ''


def _r2_consistency_check(c):
    r = _r2_solve(c)
    if r is None:
        return None
    s, sol, th = r
    gB, gT = c['bottom'][4], c['top'][4]
    for i in range(len(th)):
        p, rho, e, M, u, v, q = (float(sol[n][i]) for n in ('pressure', 'density', 'specific_internal_energy', 'Mach',
                                                             'x_velocity', 'y_velocity', 'speed'))
        if not all(map(math.isfinite, (p, rho, e, M, u, v, q))):
            continue
        ok = False
        for g in (gB, gT):
            if O.relerr(u * u + v * v, g * p / rho * M * M) < 1e-9 and O.relerr(e, p / rho / (g - 1)) < 1e-9:
                ok = True
        if not ok:
            return dict(site='Riemann2D:components', detail='polar %r: p=%r rho=%r e=%r M=%r u=%r v=%r' % (th[i], p, rho, e, M, u, v))
        if O.relerr(q * q, u * u + v * v) > 1e-9:
            return dict(site='Riemann2D:speed', detail='polar %r: speed=%r u=%r v=%r' % (th[i], q, u, v))
    return None


r2_consistency = O.make(lambda rng: _r2_case(rng, True), _r2_consistency_check, 'c19.riemann2d.consistency')


def _r2_slipline_check(c):
    r = _r2_solve(c)
    if r is None:
        return None
    s = r[0]
    pb, rb, Mb, ub, vb = (float(x) for x in s.bottom_star_vals)
    pt, rt, Mt, ut, vt = (float(x) for x in s.top_star_vals)
    if not all(map(math.isfinite, (pb, pt, ub, vb, ut, vt))):
        return None
    if O.relerr(pb, pt) > 1e-9:
        return dict(site='Riemann2D:slip-line-pressure', detail='p* bottom %r top %r' % (pb, pt))
    ab, at = math.atan2(vb, ub), math.atan2(vt, ut)
    if abs(ab - at) > 1e-9 or abs(ab - float(s.deflection_angle_solution)) > 1e-9:
        return dict(site='Riemann2D:slip-line-direction', detail='flow angle bottom %r top %r, reported %r' % (ab, at, s.deflection_angle_solution))
    if c['bottom'][3] == 0.0 and c['top'][3] == 0.0:
        return _r2_adjacent(s, 'Riemann2D:slip-line-field')
    return None


def _r2_adjacent(s, site):
    """the public call returns equal pressure and flow direction just below and just above the slip line"""
    cd = float(s.deflection_angle_solution)
    try:
        sol = s(np.array([[math.cos(cd - 1e-6), math.sin(cd - 1e-6)], [math.cos(cd + 1e-6), math.sin(cd + 1e-6)]]), 0.25)
    except Exception:
        return None
    if O.relerr(float(sol.pressure[0]), float(sol.pressure[1])) > 1e-9:
        return dict(site=site, detail='returned pressure just below / above the slip line: %r / %r (pattern %s, angles %r)'
                    % (float(sol.pressure[0]), float(sol.pressure[1]), s.morphology, {k: np.asarray(v).tolist() for k, v in s.angles.items()}))
    a0, a1 = (math.atan2(float(sol.y_velocity[i]), float(sol.x_velocity[i])) for i in (0, 1))
    if abs(a0 - a1) > 1e-9:
        return dict(site=site, detail='returned flow angle just below / above the slip line: %r / %r' % (a0, a1))
    return None


def _r2_regions_check(c):
    """FINDING reproduction (inflow angles != 0): the star states are returned on both sides of the slip line"""
    r = _r2_solve(c)
    if r is None:
        return None
    return _r2_adjacent(r[0], 'Riemann2D:shock-position')


def _r2_case_angled(rng):
    c = _r2_case(rng, False)
    a = rng.uniform(-8., 8.)
    c['bottom'][3], c['top'][3] = a + rng.uniform(1., 8.), a - rng.uniform(1., 8.)      # converging streams
    return c


r2_regions = O.make(_r2_case_angled, _r2_regions_check, 'c19.riemann2d.regions')


r2_slipline = O.make(lambda rng: _r2_case(rng, True), _r2_slipline_check, 'c19.riemann2d.slipline')


def _oblique(g, M0, alpha):
    """textbook oblique shock for pressure ratio alpha: (density ratio, downstream Mach, turning angle)"""
    mn2 = ((g + 1) * alpha + (g - 1)) / (2 * g)             # normal Mach number squared
    if mn2 > M0 * M0 or mn2 < 0:
        return None
    beta = math.asin(math.sqrt(mn2) / M0)
    rr = (g + 1) * mn2 / ((g - 1) * mn2 + 2)
    delta = beta - math.atan(math.tan(beta) / rr)
    mn1_2 = (1 + (g - 1) / 2 * mn2) / (g * mn2 - (g - 1) / 2)
    return rr, math.sqrt(mn1_2) / math.sin(beta - delta), delta


def _r2_shock_check(c):
    r = _r2_solve(c)
    if r is None:
        return None
    s = r[0]
    if not _r2_atoms_ok(s, c)[0]:
        return None        # inconsistent atoms are the business of r2_pattern
    cd, ps = float(s.deflection_angle_solution), float(s.pressure_solution)
    for side, st, star, k in (('bottom', c['bottom'], s.bottom_star_vals, 0), ('top', c['top'], s.top_star_vals, 4)):
        if s.morphology[k] != 'S':
            continue
        p0, r0, M0, th0, g = st
        w = _oblique(g, M0, ps / p0)
        if w is None:
            continue
        rr, M1, delta = w
        turn = abs(cd - th0 / 180. * math.pi)
        if O.relerr(float(star[1]) / r0, rr) > 1e-8 or O.relerr(float(star[2]), M1) > 1e-8:
            return dict(site='Riemann2D:oblique-shock-state', detail='%s: density ratio %r (RH %r), Mach %r (RH %r)' % (side, float(star[1]) / r0, rr, float(star[2]), M1))
        if abs(turn - abs(delta)) > 1e-7:
            return dict(site='Riemann2D:oblique-shock-turning', detail='%s: flow turned by %r, shock of that strength turns by %r' % (side, turn, delta))
    return None


r2_shock = O.make(lambda rng: _r2_case(rng, True), _r2_shock_check, 'c19.riemann2d.shock')


def _nu(g, M):
    """the Prandtl-Meyer function"""
    m = math.sqrt((g + 1) / (g - 1))
    return m * math.atan(math.sqrt(M * M - 1) / m) - math.atan(math.sqrt(M * M - 1))


def _r2_isentrope_check(c):
    """states reported inside a fan and behind it lie on the isentrope of the upstream state with its total enthalpy"""
    r = _r2_solve(c)
    if r is None:
        return None
    s, sol, th = r
    if not _r2_atoms_ok(s, c)[0]:
        return None        # inconsistent atoms are the business of r2_pattern
    for k, st, key in ((0, c['bottom'], 'BR'), (4, c['top'], 'TR')):
        if s.morphology[k] != 'R':
            continue
        p0, r0, M0, th0, g = st
        lo, hi = float(min(s.angles[key])), float(max(s.angles[key]))
        cdlo, cdhi = (hi, float(s.angles['CD'])) if key == 'BR' else (float(s.angles['CD']), lo)
        for i, a in enumerate(th):
            if not (lo < a < hi or cdlo < a < cdhi):
                continue
            p, rho, M = float(sol.pressure[i]), float(sol.density[i]), float(sol.Mach[i])
            if not all(map(math.isfinite, (p, rho, M))):
                continue
            if O.relerr(p / rho ** g, p0 / r0 ** g) > 1e-8:
                return dict(site='Riemann2D:fan-isentrope', detail='polar %r: p/rho^g = %r, upstream %r' % (a, p / rho ** g, p0 / r0 ** g))
            h, h0 = g * p / rho * (1 / (g - 1) + M * M / 2), g * p0 / r0 * (1 / (g - 1) + M0 * M0 / 2)
            if O.relerr(h, h0) > 1e-8:
                return dict(site='Riemann2D:fan-total-enthalpy', detail='polar %r: %r, upstream %r' % (a, h, h0))
    return None


# region membership is read off the reported wave angles, which are right only for inflow along the x axis (see r2_regions)
r2_isentrope = O.make(lambda rng: _r2_case(rng, False), _r2_isentrope_check, 'c19.riemann2d.isentrope')


def _r2_turning_check(c):
    """FINDING reproduction: the flow behind a fan is turned by nu(M0) - nu(M*) of the Prandtl-Meyer function"""
    r = _r2_solve(c)
    if r is None:
        return None
    s = r[0]
    if not _r2_atoms_ok(s, c)[0]:
        return None        # inconsistent atoms are the business of r2_pattern
    cd = float(s.deflection_angle_solution)
    for k, st, star in ((0, c['bottom'], s.bottom_star_vals), (4, c['top'], s.top_star_vals)):
        if s.morphology[k] != 'R':
            continue
        p0, r0, M0, th0, g = st
        turn = abs(cd - th0 / 180. * math.pi)
        want = abs(_nu(g, float(star[2])) - _nu(g, M0))
        if abs(turn - want) > 1e-7:
            return dict(site='Riemann2D:fan-turning',
                        detail='%s fan: flow turned by %r, Prandtl-Meyer nu(M*) - nu(M0) = %r (M0=%r, M*=%r)' % ('bottom' if k == 0 else 'top', turn, want, M0, float(star[2])))
    return None


r2_turning = O.make(lambda rng: _r2_case(rng, True), _r2_turning_check, 'c19.riemann2d.fan_turning')


def _r2_pm_check(c):
    """FINDING reproduction: PrandtlMeyer_function(M, g) is the Prandtl-Meyer function"""
    M = importlib.import_module(R2M)
    prob = object.__new__(M.SetupRiemannProblem)
    got, want = float(prob.PrandtlMeyer_function(c['M'], c['g'])), _nu(c['g'], c['M'])
    if abs(got - want) > 1e-9:
        return dict(site='Riemann2D:PrandtlMeyer', detail='PrandtlMeyer_function(M=%r, g=%r) = %r, nu = %r' % (c['M'], c['g'], got, want))
    return None


r2_pm = O.make(lambda rng: dict(M=rng.choice([2.0, rng.uniform(1.05, 8.0)]), g=rng.choice([1.4, rng.uniform(1.1, 1.7)])),
               _r2_pm_check, 'c19.riemann2d.prandtl_meyer')


def _r2_pattern_check(c):
    """FINDING reproduction (inflow angles differ): a side labelled S is compressed (p* >= p0), a side labelled R is expanded
    (p* <= p0), and p* balances the two pressure-deflection curves of that pattern"""
    r = _r2_solve(c)
    if r is None:
        return None
    ok, why = _r2_atoms_ok(r[0], c)
    if not ok:
        return dict(site='Riemann2D:pattern', detail=why)
    return None


def _r2_case_any(rng):
    c = _r2_case(rng, True)
    if rng.random() < 0.4:          # also diverging streams
        c['bottom'][3], c['top'][3] = c['bottom'][3] - rng.uniform(0., 10.), c['top'][3] + rng.uniform(0., 10.)
    return c


r2_pattern = O.make(_r2_case_any, _r2_pattern_check, 'c19.riemann2d.pattern')


def r2_func_tie(name):
    from py2lean.targets.t_rad import R2_FUNCS, R2_STATE
    fn, outs = R2_FUNCS[name]

    def tie(rng, deep):
        M = importlib.import_module(R2M)
        prob = object.__new__(M.SetupRiemannProblem)
        cases = []
        for i in range(300 if deep else 60):
            if name == 'R2PM':
                cases.append(dict(Ms=rng.uniform(1.0, 9.0), g=rng.uniform(1.05, 3.0)))
                continue
            p0 = rng.uniform(0.2, 3.0)
            cases.append(dict(p0=p0, r0=rng.uniform(0.2, 3.0), M0=rng.uniform(1.05, 8.0), theta0=rng.uniform(-30., 30.),
                              g=rng.uniform(1.05, 3.0),
                              ps=p0 * (rng.uniform(1.0, 6.0) if name == 'R2Comp' else rng.uniform(0.01, 1.0))))

        def real(c):
            if name == 'R2PM':
                return [prob.PrandtlMeyer_function(c['Ms'], c['g'])]
            return list(getattr(prob, fn)(c['ps'], [c[k] for k in R2_STATE]))
        return twin_tie(name, cases, real, rtol=1e-9)
    return tie


def r2_solver_tie(rng, deep):
    """Float twins of the solver-level models (R2d<pattern>, R2Star<pattern>) against the real public call; the atoms
    (p_star, cd_angle, shock angles, the pressure inside a fan) are read off the real solver / its output"""
    from py2lean.targets.t_rad import R2_BOTTOM, R2_TOP
    tot = dict(evaluations=0, distinct_nontrivial=0, mismatches=[], samples=[])
    by_model = {}
    for i in range(40 if deep else 8):
        c = _r2_case(rng, True)
        r = _r2_solve(c)
        if r is None:
            continue
        s, sol, th = r
        tag = s.morphology.replace('-', '')
        base = dict(zip(R2_BOTTOM, c['bottom']))
        base.update(zip(R2_TOP, c['top']))
        base.update(p_star=float(s.pressure_solution), cd_angle=float(s.deflection_angle_solution))
        if 'BS' in s.angles:
            base['beta_B'] = float(s.angles['BS'])
        if 'TS' in s.angles:
            base['beta_T'] = float(s.angles['TS'])
        star = dict(base)
        by_model.setdefault('R2Star' + tag, []).append((star, [float(x) for x in list(s.bottom_star_vals) + list(s.top_star_vals)]))
        for j, a in enumerate(th):
            d = dict(base, x=math.cos(a), y=math.sin(a))
            # inside a fan the code solves for the pressure: take the value it found (the returned pressure)
            d['p_fanB'] = d['p_fanT'] = float(sol.pressure[j])
            by_model.setdefault('R2d' + tag, []).append((d, [float(sol[n][j]) for n in sol.dtype.names]))
    for name, items in by_model.items():
        cases = [it[0] for it in items]
        want = {json.dumps(it[0], sort_keys=True): it[1] for it in items}
        st = twin_tie(name, cases, lambda c: want[json.dumps(c, sort_keys=True)], rtol=1e-9)
        tot['evaluations'] += st['evaluations']
        tot['distinct_nontrivial'] += st['distinct_nontrivial']
        tot['mismatches'] += st['mismatches']
        tot['samples'] += st['samples'][:1]
    return tot


# =====================================================================================
# C12  radiative shocks
# =====================================================================================
RSW = 'exactpack.solvers.radshocks.nED_radshocks'
RS_KINDS = {'ED': 'ED_Solver', 'nED': 'nED_Solver', 'ie': 'ie_Solver', 'Sn': 'Sn_Solver'}
_RS_CACHE = {}


def _rs_solver(kind, params):
    """construct (and cache: ED ~1 s, nED/ie ~0.3 s, Sn ~20 s) a radiative-shock solver; None if it cannot be built"""
    key = json.dumps([kind, params], sort_keys=True)
    if key in _RS_CACHE:
        return _RS_CACHE[key]
    import contextlib
    import io
    _, C = O.load('%s:%s' % (RSW, RS_KINDS[kind]))
    try:
        with warnings.catch_warnings():
            warnings.simplefilter('ignore')
            with contextlib.redirect_stdout(io.StringIO()), np.errstate(all='ignore'):
                s = C(**params)
    except Exception:
        s = None
    if len(_RS_CACHE) > 12:
        _RS_CACHE.clear()
    _RS_CACHE[key] = s
    return s


RS_PARAM_SETS = [
    dict(),                                   # the documented defaults
    dict(gamma=1.4),                          # the parameters of the repaired defect: non-default gamma, Cv, Tref
    dict(Cv=2.0e12, Tref=150.),
    dict(gamma=1.5, Tref=150., M0=1.2),
]


def _rs_case(kinds):
    def gen(rng):
        kind = rng.choice(kinds)
        p = dict(rng.choice(RS_PARAM_SETS))
        if rng.random() < 0.3:
            p = dict(p, gamma=rng.choice([5. / 3., 1.4, 1.5]), Cv=1.4472799784454e12 * rng.choice([1.0, 0.7, 1.6]),
                     Tref=rng.choice([100., 80., 150.]), M0=rng.choice([1.2, 1.05, 1.3]))
        if kind == 'ie':
            p['M0'] = rng.choice([1.4, 1.2, 1.3])
            if rng.random() < 0.6:
                p['Z'] = rng.choice([2.0, 5.0, 0.5])     # ionisation: at Z = 1 the ion and electron weights coincide (seeded C03-8)
        if kind != 'ie' and rng.random() < 0.3:
            p['rho0'] = rng.choice([1.0, 2.0, 0.5])
        return dict(kind=kind, params=p, frac=sorted(rng.random() for _ in range(6)),
                    t=rng.choice([0.0, 1e-9, rng.uniform(0, 5e-9)]), delta=rng.choice([1e-9, 3e-9, rng.uniform(-2e-9, 6e-9)]))
    return gen


def _tiered(kinds_quick, kinds_deep, check, name):
    """oracle whose case generator depends on the tier (Sn takes ~20 s to construct: thorough only)"""
    q = O.make(_rs_case(kinds_quick), check, name)
    d = O.make(_rs_case(kinds_deep), check, name)

    def run(rng, budget, deep, replay=None):
        return (d if deep else q)(rng, budget, deep, replay)
    run.__name__ = name
    return run


def _rs_c(s):
    return math.sqrt(s.gamma * (s.gamma - 1.) * s.Cv * s.Tref)


def _rs_shift_check(c):
    """field(x + M0 c_s delta, t + delta) = field(x, t), c_s from the INSTANCE's gamma, Cv, Tref (public calls)"""
    s = _rs_solver(c['kind'], c['params'])
    if s is None:
        return None
    cs = _rs_c(s)
    x = np.asarray(s.x, dtype=float)
    lo, hi = x[1], x[-2]
    pts = np.array([lo + f * (hi - lo) for f in c['frac']])
    try:
        a = s(pts, c['t'])
        b = s(pts + s.M0 * cs * c['delta'], c['t'] + c['delta'])
    except Exception:
        return None
    for nm in a.dtype.names[1:]:
        scale = float(np.max(np.abs(a[nm]))) or 1.0
        err = float(np.max(np.abs(a[nm] - b[nm]))) / scale
        # the stored profile is piecewise linear with >= 8000 nodes: the shifted abscissa is exact up to rounding of
        # x + shift (relative 1e-16 of |shift| ~ 0.1, times the steepest slope): calibrated 7e-15, margin to 1e-9
        if not (err <= 1e-9):
            return dict(site='RadShock:%s:travelling-wave' % c['kind'],
                        detail='field %s changes by %.3e (relative) between (x, t) and (x + M0 c_s delta, t + delta), c_s = %r, solver.sound = %r'
                        % (nm, err, cs, getattr(s, 'sound', None)))
    return None


rs_shift = _tiered(['ED', 'nED', 'ie'], ['ED', 'nED', 'ie', 'Sn'], _rs_shift_check, 'c12.radshock.shift')


def _rs_fluxes(s, kind):
    cs, r0 = _rs_c(s), s.rho0
    m = s.Density * s.Speed / cs / r0
    if kind == 'ie':
        mom = (s.Density * s.Speed ** 2 + s.Pressure) / cs ** 2 / r0
        return m, mom, None
    T = s.Tm if kind == 'ED' else s.Tr
    Pr = s.P0 * (T / s.Tref) ** 4 * (s.VEF if kind == 'Sn' else 1. / 3.)
    mom = (s.Density * s.Speed ** 2 + s.Pressure) / cs ** 2 / r0 + Pr
    en = (0.5 * s.Density * s.Speed ** 2 + s.Density * s.SIE + s.Pressure) / cs ** 2 / r0 * s.Speed / cs + s.Fr / cs ** 2 / r0
    return m, mom, en


def _rs_flux_check(c):
    """mass flux, total momentum flux and total energy flux are constant along the whole stored profile (solver attributes;
    `Fr` = radiation energy flux / sound speed, including the advected enthalpy -- the convention of the suite's flux tests)"""
    s = _rs_solver(c['kind'], c['params'])
    if s is None:
        return None
    kind = c['kind']
    m, mom, en = _rs_fluxes(s, kind)
    tol = 1e-7 if kind == 'Sn' else 1e-9          # calibrated: 3e-16 … 2e-15 (ED, nED, ie), 2.3e-9 (Sn momentum)
    e = float(np.max(np.abs(m / s.M0 - 1)))
    if not e <= tol:
        return dict(site='RadShock:%s:mass-flux' % kind, detail='relative variation %.3e' % e)
    e = float(np.max(np.abs(mom / mom[0] - 1)))
    if not e <= tol:
        return dict(site='RadShock:%s:momentum-flux' % kind, detail='relative variation %.3e' % e)
    if en is not None:
        # the last node of an ED profile with an embedded hydrodynamic shock is a separate obligation (rs_ed_last_node)
        body = en[:-1] if kind == 'ED' else en
        e = float(np.max(np.abs(body / en[0] - 1)))
        if not e <= tol:
            return dict(site='RadShock:%s:energy-flux' % kind, detail='relative variation %.3e' % e)
    return None


rs_flux = _tiered(['ED', 'nED', 'ie'], ['ED', 'nED', 'ie', 'Sn'], _rs_flux_check, 'c12.radshock.flux')


def _rs_last_node_check(c):
    """the total energy flux formed with `Fr` at the LAST node (far-downstream equilibrium state) of the ED profile"""
    s = _rs_solver('ED', c['params'])
    if s is None:
        return None
    m, mom, en = _rs_fluxes(s, 'ED')
    e = abs(float(en[-1] / en[0]) - 1)
    if not e <= 1e-9:
        return dict(site='RadShock:ED:energy-flux-last-node',
                    detail='total energy flux at the last node differs from upstream by %.3e (relative); M0=%r gamma=%r' % (e, s.M0, s.gamma))
    return None


def _rs_last_gen(rng):
    p = dict(rng.choice([dict(gamma=1.4), dict(M0=2.0), dict(), dict(Cv=2.0e12, Tref=150.)]))
    return dict(kind='ED', params=p)


rs_ed_last_node = O.make(_rs_last_gen, _rs_last_node_check, 'c12.radshock.ed_last_node')


def _rs_farfield_check(c):
    """far upstream: (rho, T, u) = (rho0, Tref, M0 c_s); far downstream: the equilibrium state related to it by the
    (radiation-modified, resp. hydrodynamic) jump conditions"""
    s = _rs_solver(c['kind'], c['params'])
    if s is None:
        return None
    kind, cs, g, M0 = c['kind'], _rs_c(s), s.gamma, s.M0
    up = (s.Density[0] / s.rho0, s.Tm[0] / s.Tref, s.Speed[0] / cs / M0)
    if max(abs(v - 1) for v in up) > 1e-6:       # the profile starts eps_precursor_equil ~ 1e-6 away from equilibrium
        return dict(site='RadShock:%s:far-upstream' % kind, detail='(rho/rho0, T/Tref, u/(M0 c_s)) = %r' % (up,))
    r1, T1 = float(s.Density[-1] / s.rho0), float(s.Tm[-1] / s.Tref)
    if kind == 'ie':
        mom = M0 * M0 / r1 + r1 * T1 / g - (M0 * M0 + 1 / g)
        ene = M0 * M0 / (2 * r1 * r1) + T1 / (g - 1) - (M0 * M0 / 2 + 1 / (g - 1))
    else:
        P0 = float(s.P0)
        mom = M0 * M0 / r1 + r1 * T1 / g + P0 * T1 ** 4 / 3 - (M0 * M0 + 1 / g + P0 / 3)
        ene = M0 * M0 / (2 * r1 * r1) + T1 / (g - 1) + 4 * P0 * T1 ** 4 / (3 * r1) - (M0 * M0 / 2 + 1 / (g - 1) + 4 * P0 / 3)
    if abs(mom) > 1e-7 or abs(ene) > 1e-7:
        return dict(site='RadShock:%s:far-downstream-jump' % kind,
                    detail='(rho1, T1) = (%r, %r): momentum defect %.3e, energy defect %.3e' % (r1, T1, mom, ene))
    return None


rs_farfield = _tiered(['ED', 'nED', 'ie'], ['ED', 'nED', 'ie', 'Sn'], _rs_farfield_check, 'c12.radshock.farfield')


def _rs_eos_check(c):
    """C03 share: SIE = Pressure / Density / (gamma - 1), Sound_Speed = Speed / Mach, sound = sqrt(gamma (gamma-1) Cv Tref)"""
    s = _rs_solver(c['kind'], c['params'])
    if s is None:
        return None
    e = float(np.max(np.abs(s.SIE * s.Density * (s.gamma - 1) / s.Pressure - 1)))
    if not e <= 1e-12:
        return dict(site='RadShock:%s:sie' % c['kind'], detail='relative error %.3e' % e)
    e = float(np.max(np.abs(s.Sound_Speed * s.Mach / s.Speed - 1)))
    if not e <= 1e-12:
        return dict(site='RadShock:%s:sound-speed' % c['kind'], detail='relative error %.3e' % e)
    e = float(np.max(np.abs(s.Sound_Speed ** 2 * s.Density / (s.gamma * s.Pressure) - 1)))
    if not e <= 1e-11:
        return dict(site='RadShock:%s:c2=gamma*p/rho' % c['kind'], detail='relative error %.3e (params %r)' % (e, c['params']))
    if O.relerr(float(s.sound), _rs_c(s)) > 1e-14:
        return dict(site='RadShock:%s:sound' % c['kind'], detail='solver.sound = %r, sqrt(gamma (gamma-1) Cv Tref) = %r' % (s.sound, _rs_c(s)))
    return None


rs_eos = _tiered(['ED', 'nED', 'ie'], ['ED', 'nED', 'ie', 'Sn'], _rs_eos_check, 'c03.radshock.eos')


def rs_jump_tie(rng, deep):
    """RadJump / RadIEJump twins against the real `downstream_equilibrium` (the residual closure is captured from the
    real fsolve call)"""
    U = importlib.import_module('exactpack.solvers.radshocks.utils')
    import scipy.optimize
    cases, want = [], {}
    for i in range(200 if deep else 40):
        M0, g, P0 = rng.uniform(1.05, 4.0), rng.uniform(1.1, 2.0), 10 ** rng.uniform(-5, 0)
        rho, T = rng.uniform(0.5, 5.0), rng.uniform(0.5, 5.0)
        prof = object.__new__(U.RadShockProfile)
        prof.M0, prof.gamma, prof.P0 = M0, g, P0
        cap = {}
        real_fsolve = scipy.optimize.fsolve

        def fsolve(f, x0, *a, **k):
            if f.__name__ == 'momentum_and_energy':
                cap['f'] = f
            return real_fsolve(f, x0, *a, **k)
        saved = U.scipy.optimize.fsolve
        U.scipy.optimize.fsolve = fsolve
        try:
            with warnings.catch_warnings():
                warnings.simplefilter('ignore')
                prof.downstream_equilibrium()
        except Exception:
            continue
        finally:
            U.scipy.optimize.fsolve = saved
        c = dict(M0=M0, gamma=g, P0=P0, rho=rho, T=T, rho1=float(prof.rho1), T1=float(prof.T1))
        mom, ene = cap['f']([rho, T])
        cases.append(c)
        want[json.dumps(c, sort_keys=True)] = [mom, ene, prof.M1, prof.speed1, prof.Pr1, prof.Er1, prof.rho1, prof.T1]
    st = twin_tie('RadJump', cases, lambda c: want[json.dumps(c, sort_keys=True)], rtol=1e-10)
    cases2 = [dict(M0=rng.uniform(1.01, 4.0), gamma=rng.uniform(1.1, 2.0), rho0=rng.choice([1.0, rng.uniform(0.5, 2.0)]))
              for i in range(200 if deep else 40)]

    def real2(c):
        prof = object.__new__(U.IEShockProfile)
        prof.M0, prof.gamma, prof.rho0 = c['M0'], c['gamma'], c['rho0']
        prof.downstream_equilibrium()
        return [prof.M1, prof.speed1, prof.rho1, prof.T1]
    st2 = twin_tie('RadIEJump', cases2, real2, rtol=1e-9)
    for k in ('evaluations', 'distinct_nontrivial'):
        st[k] += st2[k]
    st['mismatches'] += st2['mismatches']
    return st


def rs_ed_tie(rng, deep):
    """RadED twin against the arrays of a REAL equilibrium-diffusion profile at its own nodes, and RadAttrED against the
    attributes the real solver derives from it"""
    from py2lean.targets.t_rad import ED_FIELDS, ED_PARAMS, RAD_ATTRS
    F = importlib.import_module('exactpack.solvers.radshocks.fnctn_ED')
    tot = dict(evaluations=0, distinct_nontrivial=0, mismatches=[], samples=[])
    for params in (RS_PARAM_SETS if deep else RS_PARAM_SETS[:2]):
        s = _rs_solver('ED', params)
        if s is None:
            continue
        prob = s._ED_Solver__prob
        prof = prob.ED_profile
        n = len(prof.Tm)
        cases, want = [], {}
        for i in [rng.randrange(1, n - 1) for _ in range(40 if deep else 15)]:
            c = {k: float(getattr(prof, k)) for k in ED_PARAMS}
            c.update(T=float(prof.Tm[i]), T1=float(prof.T1), rho1=float(prof.rho1), M1=float(prof.M1))
            w = []
            for j in (0, i, n - 1):
                w += [float(getattr(prof, k)[j]) for k in ED_FIELDS]
            w += [float(F.dxdT(0., c['T'], prof)), float(F.sigma_t(c['T'], prof)), float(F.rho(c['T'], prof))]
            cases.append(c)
            want[json.dumps(c, sort_keys=True)] = w
        st = twin_tie('RadED', cases, lambda c: want[json.dumps(c, sort_keys=True)], rtol=1e-9)
        cases, want = [], {}
        for i in [rng.randrange(0, n) for _ in range(20)]:
            c = dict(Cv=float(s.Cv), Tref=float(s.Tref), gamma=float(s.gamma), rho0=float(s.rho0))
            for k in ('Density', 'Fr', 'Mach', 'Pressure', 'Speed', 'Tm'):
                c['prof_%s0' % k] = float(getattr(prof, k)[i])
            w = []
            for k in RAD_ATTRS['RadWrapED']:
                v = getattr(s, k)
                w.append(float(v[i]) if isinstance(v, np.ndarray) else float(v))
            cases.append(c)
            want[json.dumps(c, sort_keys=True)] = w
        st2 = twin_tie('RadAttrED', cases, lambda c: want[json.dumps(c, sort_keys=True)], rtol=1e-11)
        for x in (st, st2):
            tot['evaluations'] += x['evaluations']
            tot['distinct_nontrivial'] += x['distinct_nontrivial']
            tot['mismatches'] += x['mismatches']
            tot['samples'] += x['samples'][:1]
    return tot
