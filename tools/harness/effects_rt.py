"""Runtime validation of the effect extractor (C06): log the real LOAD_GLOBAL / STORE_GLOBAL
events on shared locations during a real solver call (opcode tracing restricted to the
modules concerned) and check that the observed trace is a trace of the extracted IR and is
clean (every read preceded by a write of the same call)."""
import dis
import importlib
import json
import os
import sys

from . import lean_io

GEN = os.path.join(lean_io.LEAN_DIR, 'EPV', 'Gen', 'gen_manifest.json')


def load_ir():
    m = json.load(open(GEN))['Effects']

    def tup(x):
        return tuple(tup(y) if isinstance(y, list) else y for y in x)
    return {k: tup(v) for k, v in m['ir'].items()}, m['locs'], dict(m['programs'])


class Tracer(object):
    def __init__(self, locs):
        # locs: 'pkg.mod.name' -> index   (pkg.mod = last two components of the module name)
        self.byfile = {}
        self.events = []
        locs = {k: i for k, i in locs.items() if not k.startswith('class.')}   # class attributes are not module globals
        mods = set(k.rsplit('.', 1)[0] for k in locs)
        for short in mods:
            full = 'exactpack.solvers.' + short
            py = importlib.import_module(full)
            names = {k.rsplit('.', 1)[1]: i for k, i in locs.items() if k.rsplit('.', 1)[0] == short}
            self.byfile[py.__file__] = names
        self.cache = {}

    def table(self, code, names):
        t = self.cache.get(code)
        if t is None:
            t = {}
            for ins in dis.get_instructions(code):
                if ins.opname in ('LOAD_GLOBAL', 'LOAD_NAME') and ins.argval in names:
                    t[ins.offset] = ('r', names[ins.argval])
                elif ins.opname in ('STORE_GLOBAL',) and ins.argval in names:
                    t[ins.offset] = ('w', names[ins.argval])
            self.cache[code] = t
        return t

    def __call__(self, frame, event, arg):
        names = self.byfile.get(frame.f_code.co_filename)
        if names is None:
            return None
        if frame.f_code.co_name == '<module>':
            return None
        frame.f_trace_opcodes = True
        frame.f_trace_lines = False
        tab = self.table(frame.f_code, names)
        if not tab:
            return None
        events = self.events

        def local(fr, ev, a):
            if ev == 'opcode':
                e = tab.get(fr.f_lasti)
                if e is not None:
                    if e[0] == 'w':
                        # value being stored = top of stack is not accessible; read it after the store
                        events.append(['w', e[1], fr, fr.f_code.co_names, None])
                    else:
                        events.append(['r', e[1]])
            return local
        return local


def record(fn, locs):
    """run fn() under the tracer; returns list of ('r', l) / ('w', l, value-or-None)"""
    tr = Tracer(locs)
    inv = {}
    for k, i in locs.items():
        inv[i] = k
    old = sys.gettrace()
    # CPython 3.12 arms per-opcode events only at the sys.settrace call that *follows* the first
    # `f_trace_opcodes = True` of the interpreter: without this line the first recording of a process
    # sees no event at all (and an empty trace is a trace of any `loop`)
    sys._getframe().f_trace_opcodes = True
    sys.settrace(tr)
    try:
        fn()
    finally:
        sys.settrace(old)
    out = []
    for e in tr.events:
        if e[0] == 'r':
            out.append(('r', e[1]))
        else:
            out.append(('w', e[1], None))
    return out


def clean(trace):
    written = set()
    for e in trace:
        if e[0] == 'r':
            if e[1] not in written:
                return e
        else:
            written.add(e[1])
    return None


def accepts(ir, trace):
    """is the observed trace a trace of the IR?  Set-of-positions simulation; constant
    stores are tracked only through `wc` (the observed value is not needed: an unknown
    flag makes both branches of iteEq possible, which over-approximates)."""
    n = len(trace)
    sys.setrecursionlimit(100000)

    def step(node, S):
        """S: frozenset of (pos, store) ; store: tuple of (loc, val) known constants"""
        k = node[0]
        if not S:
            return S
        if k == 'skip':
            return S
        if k == 'r':
            return frozenset((p + 1, st) for p, st in S if p < n and trace[p][0] == 'r' and trace[p][1] == node[1])
        if k == 'w':
            return frozenset((p + 1, tuple(x for x in st if x[0] != node[1])) for p, st in S
                             if p < n and trace[p][0] == 'w' and trace[p][1] == node[1])
        if k == 'wc':
            return frozenset((p + 1, tuple(sorted([x for x in st if x[0] != node[1]] + [(node[1], node[2])])))
                             for p, st in S if p < n and trace[p][0] == 'w' and trace[p][1] == node[1])
        if k == 'seq':
            return step(node[2], step(node[1], S))
        if k == 'ite':
            return step(node[1], S) | step(node[2], S)
        if k == 'iteEq':
            l, c = node[1], node[2]
            S1 = frozenset((p + 1, st) for p, st in S if p < n and trace[p][0] == 'r' and trace[p][1] == l)
            T = frozenset((p, st) for p, st in S1 if dict(st).get(l, c) == c)
            F = frozenset((p, st) for p, st in S1 if dict(st).get(l, None) != c)
            return step(node[3], T) | step(node[4], F)
        if k == 'loop':
            seen = set(S)
            frontier = S
            while frontier:
                nxt = step(node[1], frontier) - seen
                seen |= nxt
                frontier = nxt
            return frozenset(seen)
        raise ValueError(k)
    end = step(ir, frozenset([(0, ())]))
    return any(p == n for p, _ in end)
