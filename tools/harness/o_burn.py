"""Oracles for the programmed-burn solvers (Kenamond 1-3, DSD cylindrical expansion) on the REAL code:
C13 (first-arrival-time structure), C09 (isometries), C07 (2-D vs 3-D), C08 (units), C20 (constructor
catalogue, finite values inside the domain) and the tie of the traced constructor trees.

Every oracle is built with `oracle.make(gen, check, name)`; failures carry a stable `site`."""
import math

import numpy as np

from . import oracle as O
from . import lean_io
from py2lean.trace import load

K1 = 'exactpack.solvers.kenamond.kenamond1:Kenamond1'
K2 = 'exactpack.solvers.kenamond.kenamond2:Kenamond2'
K3 = 'exactpack.solvers.kenamond.kenamond3:Kenamond3'
DSD = 'exactpack.solvers.dsd.cylexpansion:CylindricalExpansion'

LIP = 1e-9        # relative slack on Lipschitz quotients
ATOL = 1e-12      # absolute slack (times are O(1..10))


# --------------------------------------------------------------------------
# helpers
# --------------------------------------------------------------------------

def bt(cls, params, pts):
    """burn times of the public call, None when the solver rejects"""
    f = O.try_fields(cls, params, pts, 0.0)
    return None if f is None else f['burntime']


def unit(rng, n):
    while True:
        v = [rng.gauss(0, 1) for _ in range(n)]
        s = math.sqrt(sum(u * u for u in v))
        if s > 1e-3:
            return [u / s for u in v]


def vec(rng, n, lo, hi):
    return [rng.uniform(lo, hi) for _ in range(n)]


def dist(a, b):
    return math.sqrt(sum((u - v) ** 2 for u, v in zip(a, b)))


def norm(a):
    return math.sqrt(sum(u * u for u in a))


def add(a, b, s=1.0):
    return [u + s * v for u, v in zip(a, b)]


def k1_params(rng, g=None):
    g = g or rng.choice([2, 3])
    return dict(geometry=g, D=rng.uniform(0.2, 5.0), x_d=vec(rng, g, -4, 4), t_d=rng.uniform(-2, 2))


def k2_params(rng, g=None, equal=None, loose=False):
    """parameter sets that satisfy the constructor's ordering conditions; `loose`: detonation times up to
    2.5 R/D2 EARLIER than documented — the constructor must reject those, and whatever it accepts must
    still have the first-arrival structure"""
    g = g or rng.choice([2, 3])
    R = rng.uniform(0.5, 4.0)
    D2 = rng.uniform(0.5, 2.0)
    D1 = D2 * (1.0 if (equal if equal is not None else rng.random() < 0.1) else rng.uniform(1.0, 3.0))
    td3 = rng.uniform(-1.0, 1.0)
    signs = rng.choice([(1, 1, -1, -1), (1, -1, 1, -1), (1, 1, 1, 1), (-1, 1, -1, 1)])
    dets, td = [], []
    for s in signs:
        a = s * R * rng.uniform(1.05, 4.0)
        bound = td3 + R * (1.0 / D1 + 1.0 / D2) - abs(a) / D2
        dets.append(a)
        slack = rng.choice([0.0, rng.uniform(0.0, 0.5), rng.uniform(0.0, 3.0)]) + 1e-12 * (1 + abs(bound))
        if loose and rng.random() < 0.5:
            slack = -rng.uniform(0.0, 2.5) * R / D2
        td.append(bound + slack)
    return dict(geometry=g, R=R, D1=D1, D2=D2, dets=dets, t_d=[td[0], td[1], td3, td[2], td[3]])


def k2_det(p, i):
    """detonator i = 1, 2, 4, 5 (or 3) as a point"""
    g = p['geometry']
    a = 0.0 if i == 3 else p['dets'][{1: 0, 2: 1, 4: 2, 5: 3}[i]]
    return [0.0] * (g - 1) + [a]


def k3_params(rng, g=None):
    g = g or rng.choice([2, 3])
    R = rng.uniform(0.5, 4.0)
    d = unit(rng, g)
    lod = R * rng.uniform(1.05, 3.0)
    return dict(geometry=g, R=R, D=rng.uniform(0.2, 5.0), x_d=[lod * u for u in d], t_d=rng.uniform(-2, 2))


def k3_theta(p, q):
    xd, R = p['x_d'], p['R']
    lop, lod = norm(q), norm(xd)
    c = -sum(u * v for u, v in zip(q, xd)) / (lod * lop)
    c = max(-1.0, min(1.0, c))
    return math.pi - math.acos(c) - math.acos(min(1.0, R / lop)) - math.acos(R / lod)


def k3_point(rng, p, shadow=None, margin=1.0):
    """a point of the explosive; shadow=True/False asks for that region"""
    g, R = p['geometry'], p['R']
    for _ in range(200):
        if shadow:
            d = [-u / norm(p['x_d']) + 0.5 * rng.gauss(0, 1) for u in p['x_d']]
        else:
            d = unit(rng, g)
        n = norm(d)
        q = [R * rng.uniform(margin, 4.0) * u / n for u in d]
        th = k3_theta(p, q)
        if shadow is None or (th > 1e-6) == shadow and abs(th) > 1e-6:
            return q
    return None


def dsd_params(rng):
    D1, D2 = rng.uniform(0.3, 2.0), rng.uniform(0.3, 2.0)
    a1 = rng.choice([0.0, rng.uniform(0.0, 0.5), rng.uniform(0.0, 0.5)])
    a2 = rng.choice([0.0, rng.uniform(0.0, 0.5), rng.uniform(0.0, 0.5)])
    r1 = a1 / D1 + rng.uniform(0.05, 2.0)
    r2 = max(r1, a2 / D2) + rng.uniform(0.05, 2.0)
    return dict(r_1=r1, r_2=r2, D_CJ_1=D1, D_CJ_2=D2, alpha_1=a1, alpha_2=a2, t_d=rng.uniform(-2, 2))


def fail(site, **kw):
    return dict(site=site, detail=' '.join('%s=%r' % kv for kv in kw.items()))


def lip_check(site, ts, pts, pairs, speed):
    for i, j in pairs:
        d = dist(pts[i], pts[j])
        if abs(ts[i] - ts[j]) > d / speed * (1 + LIP) + ATOL:
            return fail(site, p=pts[i], q=pts[j], tp=ts[i], tq=ts[j], dist_over_D=d / speed)
    return None


# --------------------------------------------------------------------------
# C13
# --------------------------------------------------------------------------

def _k1_gen(rng):
    p = k1_params(rng)
    g = p['geometry']
    pts = [vec(rng, g, -8, 8) for _ in range(6)]
    base = vec(rng, g, -8, 8)
    pts += [base, add(base, unit(rng, g), rng.choice([1e-6, 1e-3, 0.1]))]
    u = unit(rng, g)
    s = sorted(rng.uniform(0, 6) for _ in range(2))
    pts += [add(p['x_d'], u, s[0]), add(p['x_d'], u, s[1]), list(p['x_d'])]
    return dict(cls=K1, params=p, pts=pts, ray=s)


def _k1_check(c):
    p, pts = c['params'], c['pts']
    ts = bt(K1, p, pts)
    if ts is None:
        return fail('Kenamond1:rejected-valid', params=p)
    n = len(pts)
    if not all(map(math.isfinite, ts)):
        return fail('Kenamond1:nonfinite', params=p)
    if abs(ts[-1] - p['t_d']) > ATOL:
        return fail('Kenamond1:value-at-detonator', t=ts[-1], t_d=p['t_d'])
    if min(ts) < p['t_d'] - ATOL:
        return fail('Kenamond1:earlier-than-detonation', t=min(ts), t_d=p['t_d'])
    f = lip_check('Kenamond1:lipschitz', ts, pts, [(i, j) for i in range(n) for j in range(i)], p['D'])
    if f:
        return f
    s = c['ray']
    if abs((ts[-2] - ts[-3]) - (s[1] - s[0]) / p['D']) > 1e-9 * (1 + abs(ts[-2])):
        return fail('Kenamond1:eikonal-on-ray', dt=ts[-2] - ts[-3], ds_over_D=(s[1] - s[0]) / p['D'])
    return None


k1 = O.make(_k1_gen, _k1_check, 'burn.k1')


def _k2_gen(rng):
    p = k2_params(rng, loose=rng.random() < 0.3)
    g, R = p['geometry'], p['R']
    pts = [vec(rng, g, -4 * R, 4 * R) for _ in range(5)]
    pts += [[R * rng.uniform(0, 1) * u for u in unit(rng, g)] for _ in range(3)]          # inside the sphere
    u = unit(rng, g)
    eps = rng.choice([1e-9, 1e-6, 1e-3])
    pts += [[R * (1 - eps) * v for v in u], [R * (1 + eps) * v for v in u]]                 # straddling the interface
    pts += [k2_det(p, i) for i in (1, 2, 3, 4, 5)]
    return dict(cls=K2, params=p, pts=pts, eps=eps)


def _k2_check(c):
    p, pts = c['params'], c['pts']
    ts = bt(K2, p, pts)
    td = p['t_d']
    documented = all(td[j] >= td[2] + p['R'] * (1 / p['D1'] + 1 / p['D2']) - abs(a) / p['D2']
                     for j, a in zip((0, 1, 3, 4), p['dets']))
    if ts is None:
        # rejected: fine when a documented condition is violated (C20 checks that it must be)
        return fail('Kenamond2:rejected-valid', params=p) if documented else None
    if not all(map(math.isfinite, ts)):
        return fail('Kenamond2:nonfinite', params=p)
    n = len(pts)
    if min(ts) < min(td) - ATOL:
        return fail('Kenamond2:earlier-than-first-detonation', t=min(ts), t_d=td)
    for k, i in enumerate((0, 1, 2, 3, 4)):
        t_at = ts[n - 5 + k]
        if t_at > td[i] + ATOL:
            return fail('Kenamond2:detonator-burns-late', detonator=i + 1, t=t_at, t_d=td[i])
    if abs(ts[n - 3] - td[2]) > ATOL:
        return fail('Kenamond2:value-at-detonator-3', t=ts[n - 3], t_d=td[2])
    f = lip_check('Kenamond2:lipschitz-D2', ts, pts, [(i, j) for i in range(n) for j in range(i)], p['D2'])
    if f:
        return f
    f = lip_check('Kenamond2:lipschitz-D1-inside', ts, pts, [(i, j) for i in range(5, 9) for j in range(5, i)], p['D1'])
    if f:
        return f
    for i in range(5, 9):
        want = td[2] + norm(pts[i]) / p['D1']
        if abs(ts[i] - want) > 1e-12 * (1 + abs(want)) + ATOL:
            return fail('Kenamond2:inside-sphere', p=pts[i], t=ts[i], td3_plus_r_over_D1=want)
    # continuity across the interface (points 8, 9 straddle it at distance 2 eps R)
    if abs(ts[9] - ts[8]) > 2 * c['eps'] * p['R'] / p['D2'] * (1 + LIP) + ATOL:
        return fail('Kenamond2:interface-jump', inner=ts[8], outer=ts[9], eps=c['eps'])
    return None


k2 = O.make(_k2_gen, _k2_check, 'burn.k2')


def _k3_gen(rng):
    p = k3_params(rng)
    g, R = p['geometry'], p['R']
    pts = []
    for sh in (True, False, None, True):
        q = k3_point(rng, p, sh, margin=1.01)
        if q is None:
            q = k3_point(rng, p, None, margin=1.01)
        pts.append(q)
        h = rng.choice([1e-6, 1e-4, 1e-2]) * R
        pts.append(add(q, unit(rng, g), h))            # displaced neighbour (segment stays in the explosive)
    # a pair straddling the shadow boundary: bisect on theta between a shadowed and a visible point
    a, b = k3_point(rng, p, True, 1.01), k3_point(rng, p, False, 1.01)
    pair = None
    if a is not None and b is not None:
        # move along the circle/sphere arc of constant radius so that the path stays outside the obstacle
        ra = norm(a)
        b = [ra * u / norm(b) for u in b]
        if k3_theta(p, b) < 0:
            for _ in range(200):
                m = [(u + v) / 2 for u, v in zip(a, b)]
                nm = norm(m)
                if nm < 1e-9:
                    break
                m = [ra * u / nm for u in m]
                if k3_theta(p, m) > 0:
                    a = m
                else:
                    b = m
            pair = [a, b]
    pts.append(list(p['x_d']))
    return dict(cls=K3, params=p, pts=pts, boundary=pair)


def _k3_check(c):
    p, pts = c['params'], c['pts']
    ts = bt(K3, p, pts)
    if ts is None:
        return fail('Kenamond3:rejected-valid', params=p, pts=pts)
    if not all(map(math.isfinite, ts)):
        return fail('Kenamond3:nonfinite', params=p, pts=pts)
    if abs(ts[-1] - p['t_d']) > ATOL:
        return fail('Kenamond3:value-at-detonator', t=ts[-1], t_d=p['t_d'])
    if min(ts) < p['t_d'] - ATOL:
        return fail('Kenamond3:earlier-than-detonation', t=min(ts), t_d=p['t_d'])
    for i, q in enumerate(pts):
        if ts[i] < p['t_d'] + dist(q, p['x_d']) / p['D'] * (1 - LIP) - ATOL:
            return fail('Kenamond3:earlier-than-straight-line', p=q, t=ts[i])
    f = lip_check('Kenamond3:lipschitz', ts, pts, [(2 * k, 2 * k + 1) for k in range(4)], p['D'])
    if f:
        return f
    # eikonal equation by central differences (step halving), away from the shadow boundary, the obstacle
    # and the kink ray directly behind the obstacle
    g, R = p['geometry'], p['R']
    for q in (pts[0], pts[2]):
        th = k3_theta(p, q)
        cosang = -sum(u * v for u, v in zip(q, p['x_d'])) / (norm(q) * norm(p['x_d']))
        if abs(th) < 0.05 or norm(q) < 1.05 * R or cosang > math.cos(0.05) or dist(q, p['x_d']) < 0.05 * R:
            continue
        errs = []
        for h in (1e-5 * R, 0.5e-5 * R):
            stencil = []
            for i in range(g):
                e = [h if j == i else 0.0 for j in range(g)]
                stencil += [add(q, e, -1.0), add(q, e)]
            tt = bt(K3, p, stencil)
            if tt is None:
                errs = None
                break
            gn = math.sqrt(sum(((tt[2 * i + 1] - tt[2 * i]) / (2 * h)) ** 2 for i in range(g)))
            errs.append(abs(gn * p['D'] - 1.0))
        if errs and min(errs) > 1e-5 and errs[1] > 0.5 * errs[0]:
            return fail('Kenamond3:gradient-norm', p=q, theta=th, errors=errs)
    if c.get('boundary'):
        a, b = c['boundary']
        tb = bt(K3, p, [a, b])
        if tb is not None and abs(tb[0] - tb[1]) > dist(a, b) / p['D'] * (1 + LIP) + 1e-9 * (1 + abs(tb[0])):
            return fail('Kenamond3:shadow-boundary-jump', shadow=a, visible=b, t_shadow=tb[0], t_visible=tb[1])
    return None


k3 = O.make(_k3_gen, _k3_check, 'burn.k3')


def _dsd_gen(rng):
    p = dsd_params(rng)
    r1, r2 = p['r_1'], p['r_2']
    radii = sorted([rng.uniform(0.0, r1), r1, rng.uniform(r1, r2), rng.uniform(r1, r2), r2, rng.uniform(r2, 3 * r2),
                    rng.uniform(r2, 3 * r2)])
    eps = rng.choice([1e-12, 1e-9, 1e-6])
    return dict(cls=DSD, params=p, radii=radii, dir=unit(rng, 2), eps=eps, dir2=unit(rng, 2),
                pair=[rng.uniform(0, 1), rng.uniform(0, 1)],
                probe=[rng.uniform(r1 * 1.01, r2 * 0.99), rng.uniform(r2 * 1.01, 3 * r2)])


def _dsd_t(p, u, radii):
    return bt(DSD, p, [[r * u[0], r * u[1]] for r in radii])


def _dsd_check(c):
    p, u = c['params'], c['dir']
    r1, r2 = p['r_1'], p['r_2']
    ts = _dsd_t(p, u, c['radii'])
    if ts is None:
        return fail('CylindricalExpansion:rejected-valid', params=p)
    if not all(map(math.isfinite, ts)):
        return fail('CylindricalExpansion:nonfinite-in-domain', params=p, radii=c['radii'], t=ts)
    if min(ts) < p['t_d'] - ATOL:
        return fail('CylindricalExpansion:earlier-than-detonation', t=min(ts), t_d=p['t_d'])
    for (ra, ta), (rb, tb) in zip(zip(c['radii'], ts), list(zip(c['radii'], ts))[1:]):
        if ra >= r1 and rb > ra * (1 + 1e-12) and not tb > ta - 1e-13 * (1 + abs(ta)):
            return fail('CylindricalExpansion:not-increasing', ra=ra, rb=rb, ta=ta, tb=tb)
        if rb > ra * (1 + 1e-9) and ra >= r1 and not tb > ta:
            return fail('CylindricalExpansion:not-strictly-increasing', ra=ra, rb=rb, ta=ta, tb=tb)
    # on and inside the detonator circle
    tin = _dsd_t(p, u, [0.5 * r1, r1 * (1 - 1e-12)])
    if any(abs(t - p['t_d']) > ATOL for t in tin):
        return fail('CylindricalExpansion:value-at-detonator', t=tin, t_d=p['t_d'])
    # continuity at r1 and r2
    e = c['eps']
    for name, r in (('r1', r1), ('r2', r2)):
        D = (p['D_CJ_1'] - p['alpha_1'] / r) if name == 'r1' else min(p['D_CJ_1'] - p['alpha_1'] / r, p['D_CJ_2'] - p['alpha_2'] / r)
        ta, tb = _dsd_t(p, u, [r * (1 - e), r * (1 + e)])
        if abs(tb - ta) > 2 * e * r / D * 1.01 + 1e-12 * (1 + abs(ta)):
            return fail('CylindricalExpansion:jump-at-' + name, below=ta, above=tb, eps=e)
    # two points of one material: |dt| <= dist / (D_CJ - alpha/rho), rho = the smaller radius
    for lo, hi, D, a in ((r1, r2, p['D_CJ_1'], p['alpha_1']), (r2, 3 * r2, p['D_CJ_2'], p['alpha_2'])):
        ra, rb = c['pair'][0] * (hi - lo) + lo, c['pair'][1] * (hi - lo) + lo
        pa, pb = [ra * u[0], ra * u[1]], [rb * c['dir2'][0], rb * c['dir2'][1]]
        ta, tb = bt(DSD, p, [pa, pb])
        if abs(ta - tb) > dist(pa, pb) / (D - a / min(ra, rb)) * (1 + LIP) + ATOL:
            return fail('CylindricalExpansion:lipschitz-in-material', p=pa, q=pb, tp=ta, tq=tb)
    # dt/dr = 1/(D_CJ - alpha/r): central difference, confirmed by step halving
    for r, (D, a) in zip(c['probe'], ((p['D_CJ_1'], p['alpha_1']), (p['D_CJ_2'], p['alpha_2']))):
        want = 1.0 / (D - a / r)
        errs = []
        for h in (1e-4 * r, 0.5e-4 * r):
            ta, tb = _dsd_t(p, u, [r - h, r + h])
            errs.append(abs((tb - ta) / (2 * h) - want))
        if min(errs) > 1e-6 * want and errs[1] > 0.5 * errs[0]:
            return fail('CylindricalExpansion:radial-derivative', r=r, fd_errors=errs, want=want)
    return None


dsd = O.make(_dsd_gen, _dsd_check, 'burn.dsd')

# --------------------------------------------------------------------------
# a re-used, re-parameterised instance (seeded C13-10): the burn-time solvers read their public
# parameter attributes at call time, so an instance whose attributes were set to another admissible
# parameter set must return the first-arrival field of THAT set (what a fresh instance returns) —
# a value remembered from construction gives burn times earlier than t_d and jumps at the interface
# --------------------------------------------------------------------------

def _reparam_gen(rng):
    kind = rng.choice(['dsd', 'dsd', 'k1', 'k3'])     # Kenamond 2 keeps a derived detonator array: not re-parameterisable
    if kind == 'dsd':
        a, b = dsd_params(rng), dsd_params(rng)
        if rng.random() < 0.5:      # change one parameter only (a stale half of the formula shows best)
            k = rng.choice(['t_d', 'D_CJ_1', 'D_CJ_2', 'alpha_1', 'alpha_2'])
            b = dict(a, **{k: b[k] if k != 'alpha_1' and k != 'alpha_2' else min(b[k], 0.9 * a['r_1'] * a['D_CJ_1'],
                                                                                 0.9 * a['r_2'] * a['D_CJ_2'])})
        pts = [[r * u[0], r * u[1]] for r, u in ((rng.uniform(b['r_1'], 3 * b['r_2']), unit(rng, 2)) for _ in range(6))]
        return dict(cls=DSD, a=a, b=b, pts=pts)
    g = rng.choice([2, 3])
    gen = dict(k1=k1_params, k2=k2_params, k3=k3_params)[kind]
    a, b = gen(rng, g), gen(rng, g)
    cls = dict(k1=K1, k2=K2, k3=K3)[kind]
    if kind == 'k3':
        pts = [k3_point(rng, b) for _ in range(6)]
    else:
        pts = [vec(rng, g, -4, 4) for _ in range(6)]
    return dict(cls=cls, a=a, b=b, pts=pts)


def _reparam_check(c):
    try:
        obj = O.construct(c['cls'], c['a'])
        fresh = O.construct(c['cls'], c['b'])
    except Exception:
        return None
    live = vars(obj)
    for k, v in c['b'].items():
        if k not in live:
            return None             # not a public parameter attribute: nothing to set
        setattr(obj, k, type(live[k])(v) if isinstance(live[k], np.ndarray) is False and not isinstance(v, list) else np.array(v, dtype=float))
    pts = np.array(c['pts'], dtype=float)
    try:
        want = fresh(pts, 0.0)['burntime']
    except Exception:
        return None
    if not np.all(np.isfinite(want)):
        return None                 # inadmissible target set (r_i <= alpha_i/D_i is not checked by the constructor: known finding)
    try:
        got = obj(pts, 0.0)['burntime']
    except Exception as ex:
        return fail('%s:reparameterised-instance' % c['cls'].split(':')[-1], raised=type(ex).__name__)
    bad = [i for i in range(len(pts)) if not (abs(got[i] - want[i]) <= ATOL * (1 + abs(want[i])))]
    if bad:
        i = bad[0]
        return fail('%s:reparameterised-instance' % c['cls'].split(':')[-1], point=c['pts'][i], reused=float(got[i]),
                    fresh=float(want[i]), t_d=c['b'].get('t_d'))
    return None


reparam = O.make(_reparam_gen, _reparam_check, 'burn.reparam')


# --------------------------------------------------------------------------
# C09: rotations, reflections, translations
# --------------------------------------------------------------------------

def rot_matrix(rng, g, axis_fixed=False):
    """a random orthogonal matrix (det ±1); axis_fixed: fixes the last coordinate axis pointwise"""
    n = g - 1 if axis_fixed else g
    if n == 1:
        m = np.array([[rng.choice([1.0, -1.0])]])
    else:
        a = np.array([[rng.gauss(0, 1) for _ in range(n)] for _ in range(n)])
        m, r = np.linalg.qr(a)
        m = m * np.sign(np.diag(r))
        if rng.random() < 0.5:
            m[:, 0] = -m[:, 0]
    if axis_fixed:
        full = np.eye(g)
        full[:n, :n] = m
        m = full
    return m.tolist()


def apply(m, v):
    return [sum(m[i][j] * v[j] for j in range(len(v))) for i in range(len(m))]


def _sym_gen(rng, kind=None):
    kind = kind or rng.choice(['k1', 'k1', 'k2', 'k3', 'dsd'])
    if kind == 'k1':
        p = k1_params(rng)
        g = p['geometry']
        m, shift = rot_matrix(rng, g), vec(rng, g, -5, 5)
        pts = [vec(rng, g, -8, 8) for _ in range(5)]
        return dict(kind=kind, params=p, m=m, shift=shift, pts=pts)
    if kind == 'k2':
        p = k2_params(rng)
        g = p['geometry']
        flip = rng.random() < 0.3
        m = rot_matrix(rng, g, axis_fixed=True)
        if flip:
            m[g - 1][g - 1] = -1.0
        pts = [vec(rng, g, -4 * p['R'], 4 * p['R']) for _ in range(5)]
        return dict(kind=kind, params=p, m=m, flip=flip, pts=pts)
    if kind == 'k3':
        p = k3_params(rng)
        g = p['geometry']
        pts = [q for q in (k3_point(rng, p, sh, 1.0) for sh in (True, False, None, True, None)) if q is not None]
        return dict(kind=kind, params=p, m=rot_matrix(rng, g), pts=pts)
    p = dsd_params(rng)
    return dict(kind=kind, params=p, m=rot_matrix(rng, 2), pts=[vec(rng, 2, -3 * p['r_2'], 3 * p['r_2']) for _ in range(5)])


def _sym_check(c):
    kind, p, m, pts = c['kind'], c['params'], c['m'], c['pts']
    q = dict(p)
    if kind == 'k1':
        cls, name = K1, 'Kenamond1'
        q['x_d'] = add(apply(m, p['x_d']), c['shift'])
        pts2 = [add(apply(m, x), c['shift']) for x in pts]
    elif kind == 'k2':
        cls, name = K2, 'Kenamond2'
        if c['flip']:
            q['dets'] = [-a for a in p['dets']]
        pts2 = [apply(m, x) for x in pts]
    elif kind == 'k3':
        cls, name = K3, 'Kenamond3'
        q['x_d'] = apply(m, p['x_d'])
        pts2 = [apply(m, x) for x in pts]
    else:
        cls, name = DSD, 'CylindricalExpansion'
        pts2 = [apply(m, x) for x in pts]
    t1, t2 = bt(cls, p, pts), bt(cls, q, pts2)
    if t1 is None and t2 is None:
        return None
    if (t1 is None) != (t2 is None):
        return fail(name + ':isometry-changes-acceptance', params=p, image=q)
    for x, a, b in zip(pts, t1, t2):
        if O.relerr(a, b, floor=1.0) > 1e-10:
            return fail(name + ':isometry', point=x, t=a, t_image=b, m=m)
    return None


symmetry = {k: O.make(lambda rng, k=k: _sym_gen(rng, k), _sym_check, 'burn.symmetry.' + k) for k in ('k1', 'k2', 'k3', 'dsd')}


# --------------------------------------------------------------------------
# C07: 2-D vs 3-D on a common plane
# --------------------------------------------------------------------------

def _plane_gen(rng, kind=None):
    kind = kind or rng.choice(['k1', 'k2', 'k3'])
    if kind == 'k1':
        p = k1_params(rng, 2)
        pts = [vec(rng, 2, -8, 8) for _ in range(5)]
    elif kind == 'k2':
        p = k2_params(rng, 2)
        pts = [vec(rng, 2, -4 * p['R'], 4 * p['R']) for _ in range(5)]
    else:
        p = k3_params(rng, 2)
        pts = [q for q in (k3_point(rng, p, sh, 1.0) for sh in (True, False, None, True, None)) if q is not None]
    return dict(kind=kind, params=p, pts=pts, angle=rng.uniform(0, 2 * math.pi))


def _plane_check(c):
    kind, p, pts = c['kind'], c['params'], c['pts']
    q = dict(p, geometry=3)
    if kind == 'k2':
        # the planes through the symmetry axis: (x, y) of the 2-D problem -> (x cos a, x sin a, y)
        cls, name = K2, 'Kenamond2'
        ca, sa = math.cos(c['angle']), math.sin(c['angle'])
        pts3 = [[x * ca, x * sa, y] for x, y in pts]
    else:
        cls, name = (K1, 'Kenamond1') if kind == 'k1' else (K3, 'Kenamond3')
        q['x_d'] = list(p['x_d']) + [0.0]
        pts3 = [[x, y, 0.0] for x, y in pts]
    t2, t3 = bt(cls, p, pts), bt(cls, q, pts3)
    if t2 is None or t3 is None:
        if (t2 is None) != (t3 is None):
            return fail(name + ':2d-3d-acceptance', params=p)
        return None
    for x, a, b in zip(pts, t2, t3):
        if O.relerr(a, b, floor=1.0) > 1e-12:
            return fail(name + ':2d-vs-3d', point=x, t2d=a, t3d=b)
    return None


plane = {k: O.make(lambda rng, k=k: _plane_gen(rng, k), _plane_check, 'burn.plane.' + k) for k in ('k1', 'k2', 'k3')}


# --------------------------------------------------------------------------
# C08: change of units
# --------------------------------------------------------------------------

def _units_gen(rng, kind=None):
    kind = kind or rng.choice(['k1', 'k2', 'k3', 'dsd'])
    L, T = math.exp(rng.uniform(-6, 6)), math.exp(rng.uniform(-6, 6))
    if kind == 'k1':
        p = k1_params(rng)
        pts = [vec(rng, p['geometry'], -8, 8) for _ in range(4)]
    elif kind == 'k2':
        p = k2_params(rng)
        # keep clear of the acceptance boundary: rounding in the scaled inequality is not the property
        b = [p['t_d'][2] + p['R'] * (1 / p['D1'] + 1 / p['D2']) - abs(a) / p['D2'] for a in p['dets']]
        td = p['t_d']
        p['t_d'] = [max(td[0], b[0] + 1e-6), max(td[1], b[1] + 1e-6), td[2], max(td[3], b[2] + 1e-6), max(td[4], b[3] + 1e-6)]
        pts = [vec(rng, p['geometry'], -4 * p['R'], 4 * p['R']) for _ in range(4)]
    elif kind == 'k3':
        p = k3_params(rng)
        pts = [q for q in (k3_point(rng, p, sh, 1.001) for sh in (True, False, None, True)) if q is not None]
    else:
        p = dsd_params(rng)
        pts = [vec(rng, 2, -3 * p['r_2'], 3 * p['r_2']) for _ in range(4)]
    return dict(kind=kind, params=p, pts=pts, L=L, T=T)


def _units_check(c):
    kind, p, pts, L, T = c['kind'], c['params'], c['pts'], c['L'], c['T']
    q = dict(p)
    if kind == 'k1':
        cls, name = K1, 'Kenamond1'
        q.update(D=p['D'] * L / T, x_d=[L * u for u in p['x_d']], t_d=T * p['t_d'])
    elif kind == 'k2':
        cls, name = K2, 'Kenamond2'
        q.update(R=L * p['R'], D1=p['D1'] * L / T, D2=p['D2'] * L / T, dets=[L * a for a in p['dets']],
                 t_d=[T * t for t in p['t_d']])
    elif kind == 'k3':
        cls, name = K3, 'Kenamond3'
        q.update(R=L * p['R'], D=p['D'] * L / T, x_d=[L * u for u in p['x_d']], t_d=T * p['t_d'])
    else:
        cls, name = DSD, 'CylindricalExpansion'
        q.update(r_1=L * p['r_1'], r_2=L * p['r_2'], D_CJ_1=p['D_CJ_1'] * L / T, D_CJ_2=p['D_CJ_2'] * L / T,
                 alpha_1=p['alpha_1'] * L * L / T, alpha_2=p['alpha_2'] * L * L / T, t_d=T * p['t_d'])
    f1 = O.try_fields(cls, p, pts, 0.0)
    f2 = O.try_fields(cls, q, [[L * u for u in x] for x in pts], 0.0)
    if f1 is None or f2 is None:
        if (f1 is None) != (f2 is None):
            return fail(name + ':units-change-acceptance', params=p, L=L, T=T)
        return None
    scale = max(abs(t) for t in f1['burntime']) + 1e-300
    for x, a, b in zip(pts, f1['burntime'], f2['burntime']):
        if abs(T * a - b) > 1e-9 * T * scale:
            return fail(name + ':units-burntime', point=x, t=a, t_scaled=b, L=L, T=T)
    for k in f1:
        if k.startswith('position'):
            for a, b in zip(f1[k], f2[k]):
                if abs(L * a - b) > 1e-12 * L * (abs(a) + 1e-300):
                    return fail(name + ':units-' + k, x=a, x_scaled=b, L=L)
    return None


units = {k: O.make(lambda rng, k=k: _units_gen(rng, k), _units_check, 'burn.units.' + k) for k in ('k1', 'k2', 'k3', 'dsd')}


# --------------------------------------------------------------------------
# C20: constructor catalogue x {violating, boundary}; finite values in the domain
# --------------------------------------------------------------------------

def _construct(cls, params):
    """'ok' | 'ValueError' | other exception name"""
    try:
        O.construct(cls, params)
        return 'ok'
    except Exception as ex:
        return type(ex).__name__


K1_DEF = dict(geometry=2, D=1.0, x_d=[0.0, 0.0], t_d=0.0)
K2_DEF = dict(geometry=2, R=3.0, D1=2.0, D2=1.0, dets=[10.0, 5.0, -5.0, -10.0], t_d=[2.0, 1.0, 0.0, 1.0, 2.0])
K3_DEF = dict(geometry=2, R=3.0, D=2.0, x_d=[0.0, 5.0], t_d=0.0)
DSD_DEF = dict(geometry=2, r_1=1.0, r_2=2.0, D_CJ_1=0.5, D_CJ_2=1.0, alpha_1=0.1, alpha_2=0.1, t_d=0.0)

#: (class, name, override, expected outcome, site suffix).  'reject' = documented as invalid.
CATALOGUE = []


def _cat(cls, name, base, over, expect, what):
    CATALOGUE.append(dict(cls=cls, name=name, params=dict(base, **over), expect=expect, what=what))


for _g in (1, 4, 0, 2.5):
    _cat(K1, 'Kenamond1', K1_DEF, dict(geometry=_g), 'reject', 'geometry')
    _cat(K2, 'Kenamond2', K2_DEF, dict(geometry=_g), 'reject', 'geometry')
    _cat(K3, 'Kenamond3', K3_DEF, dict(geometry=_g), 'reject', 'geometry')
for _g in (1, 3, 0):
    _cat(DSD, 'CylindricalExpansion', DSD_DEF, dict(geometry=_g), 'reject', 'geometry')
for _v in (0.0, -1.0):
    _cat(K1, 'Kenamond1', K1_DEF, dict(D=_v), 'reject', 'D>0')
    _cat(K2, 'Kenamond2', K2_DEF, dict(R=_v), 'reject', 'R>0')
    _cat(K2, 'Kenamond2', K2_DEF, dict(D1=_v), 'reject', 'D1>0')
    _cat(K2, 'Kenamond2', K2_DEF, dict(D2=_v), 'reject', 'D2>0')
    _cat(K3, 'Kenamond3', K3_DEF, dict(R=_v), 'reject', 'R>0')
    _cat(K3, 'Kenamond3', K3_DEF, dict(D=_v), 'reject', 'D>0')
    _cat(DSD, 'CylindricalExpansion', DSD_DEF, dict(r_1=_v), 'reject', 'r_1>0')
    _cat(DSD, 'CylindricalExpansion', DSD_DEF, dict(r_2=_v), 'reject', 'r_2>0')
    _cat(DSD, 'CylindricalExpansion', DSD_DEF, dict(D_CJ_1=_v), 'reject', 'D_CJ_1>0')
    _cat(DSD, 'CylindricalExpansion', DSD_DEF, dict(D_CJ_2=_v), 'reject', 'D_CJ_2>0')
_cat(K1, 'Kenamond1', K1_DEF, dict(x_d=[0.0, 0.0, 0.0]), 'reject', 'len(x_d)=geometry')
_cat(K1, 'Kenamond1', K1_DEF, dict(geometry=3), 'reject', 'len(x_d)=geometry')
_cat(K3, 'Kenamond3', K3_DEF, dict(x_d=[0.0, 5.0, 0.0]), 'reject', 'len(x_d)=geometry')
_cat(K2, 'Kenamond2', K2_DEF, dict(D1=0.5), 'reject', 'D1>D2')
_cat(K2, 'Kenamond2', K2_DEF, dict(D1=1.0), 'reject', 'D1=D2')                       # boundary: documented D1 > D2
_cat(K2, 'Kenamond2', K2_DEF, dict(dets=[10.0, 5.0, -5.0]), 'reject', 'len(dets)=4')
_cat(K2, 'Kenamond2', K2_DEF, dict(t_d=[2.0, 1.0, 0.0, 1.0]), 'reject', 'len(t_d)=5')
_cat(K2, 'Kenamond2', K2_DEF, dict(dets=[10.0, 2.0, -5.0, -10.0]), 'reject', 'detonator-in-outer-region')
_cat(K2, 'Kenamond2', K2_DEF, dict(dets=[10.0, 3.0, -5.0, -10.0]), 'reject', 'detonator-on-interface')
_cat(K2, 'Kenamond2', K2_DEF, dict(t_d=[2.0, -1.0, 0.0, 1.0, 2.0]), 'reject', 'timing')                   # bound = -0.5
_cat(K2, 'Kenamond2', K2_DEF, dict(t_d=[2.0, -0.5, 0.0, -0.5, 2.0]), 'accept', 'timing-boundary')   # bound = -0.5
_cat(K3, 'Kenamond3', K3_DEF, dict(x_d=[0.0, 2.0]), 'reject', 'detonator-outside-obstacle')
_cat(K3, 'Kenamond3', K3_DEF, dict(x_d=[0.0, 3.0]), 'reject', 'detonator-on-obstacle')
_cat(DSD, 'CylindricalExpansion', DSD_DEF, dict(r_2=1.0), 'reject', 'r_2>r_1')
_cat(DSD, 'CylindricalExpansion', DSD_DEF, dict(r_2=0.5), 'reject', 'r_2>r_1')
_cat(DSD, 'CylindricalExpansion', DSD_DEF, dict(alpha_1=-0.1), 'reject', 'alpha_1>=0')
_cat(DSD, 'CylindricalExpansion', DSD_DEF, dict(alpha_2=-0.1), 'reject', 'alpha_2>=0')
_cat(DSD, 'CylindricalExpansion', DSD_DEF, dict(alpha_1=0.0, alpha_2=0.0), 'accept', 'alpha=0')
_cat(DSD, 'CylindricalExpansion', DSD_DEF, dict(r_1=0.1), 'reject', 'r1-alpha1')            # alpha_1/D_CJ_1 = 0.2 > r_1
_cat(DSD, 'CylindricalExpansion', DSD_DEF, dict(r_1=0.2), 'reject', 'r1-alpha1')            # boundary r_1 = alpha_1/D_CJ_1
_cat(DSD, 'CylindricalExpansion', DSD_DEF, dict(alpha_2=3.0), 'reject', 'r2-alpha2')        # alpha_2/D_CJ_2 = 3 > r_2
_cat(DSD, 'CylindricalExpansion', DSD_DEF, dict(alpha_2=2.0), 'reject', 'r2-alpha2')        # boundary
for _c, _n, _d in ((K1, 'Kenamond1', K1_DEF), (K2, 'Kenamond2', K2_DEF), (K3, 'Kenamond3', K3_DEF),
                   (DSD, 'CylindricalExpansion', DSD_DEF)):
    _cat(_c, _n, _d, {}, 'accept', 'defaults')
    _cat(_c, _n, _d, dict(bogus=1.0), 'reject', 'unknown-parameter')


def _random_entry(rng, name):
    """a random VALID parameter set of the class, or one with exactly one documented restriction violated
    (by a random amount, or exactly at the boundary where the boundary is documented as invalid)"""
    amount = rng.choice([0.0, rng.uniform(0.0, 1.0), rng.uniform(0.0, 10.0)])
    if name == 'Kenamond1':
        p, cls = k1_params(rng), K1
        viol = [('D>0', dict(D=-amount)), ('geometry', dict(geometry=rng.choice([0, 1, 4, 5, 2.5]))),
                ('len(x_d)=geometry', dict(geometry=5 - p['geometry']))]
    elif name == 'Kenamond2':
        p, cls = k2_params(rng, equal=False), K2
        i = rng.randrange(4)
        dets, td = list(p['dets']), list(p['t_d'])
        dets[i] = math.copysign(p['R'] * rng.choice([1.0, rng.uniform(0.0, 1.0)]), dets[i])
        j = i if i < 2 else i + 1
        td[j] = p['t_d'][2] + p['R'] * (1 / p['D1'] + 1 / p['D2']) - abs(p['dets'][i]) / p['D2'] - 1e-9 - amount
        viol = [('R>0', dict(R=-amount)), ('D1>0', dict(D1=-amount)), ('D2>0', dict(D2=-amount)),
                ('D1>D2', dict(D1=p['D2'] * rng.uniform(0.1, 0.999))), ('detonator-in-outer-region', dict(dets=dets)),
                ('timing', dict(t_d=td)), ('geometry', dict(geometry=rng.choice([0, 1, 4, 2.5]))),
                ('len(dets)=4', dict(dets=p['dets'][:3])), ('len(t_d)=5', dict(t_d=p['t_d'] + [0.0]))]
    elif name == 'Kenamond3':
        p, cls = k3_params(rng), K3
        lod = norm(p['x_d'])
        s = rng.uniform(0.0, 0.999) * p['R'] / lod
        # exactly on the obstacle: an axis-aligned detonator, whose norm is R without rounding
        viol = [('R>0', dict(R=-amount)), ('D>0', dict(D=-amount)),
                ('detonator-outside-obstacle', dict(x_d=[s * u for u in p['x_d']] if rng.random() < 0.7 else
                                                    [0.0] * (p['geometry'] - 1) + [p['R']])),
                ('geometry', dict(geometry=rng.choice([0, 1, 4, 2.5]))), ('len(x_d)=geometry', dict(geometry=5 - p['geometry']))]
    else:
        p, cls = dsd_params(rng), DSD
        p['geometry'] = 2
        viol = [('r_1>0', dict(r_1=-amount)), ('r_2>r_1', dict(r_2=p['r_1'] * rng.choice([1.0, rng.uniform(0.0, 1.0)]))),
                ('D_CJ_1>0', dict(D_CJ_1=-amount)), ('D_CJ_2>0', dict(D_CJ_2=-amount)),
                ('alpha_1>=0', dict(alpha_1=-1e-9 - amount)), ('alpha_2>=0', dict(alpha_2=-1e-9 - amount)),
                ('geometry', dict(geometry=rng.choice([0, 1, 3, 2.5])))]
    if rng.random() < 0.3:
        return dict(cls=cls, name=name, params=p, expect='accept', what='random-valid')
    what, over = rng.choice(viol)
    return dict(cls=cls, name=name, params=dict(p, **over), expect='reject', what=what)


def catalogue_oracle(names, sites=None, exclude=()):
    """constructor catalogue restricted to the classes `names`; `sites` keeps only those restrictions"""
    entries = [e for e in CATALOGUE if e['name'] in names and (sites is None or e['what'] in sites)
               and e['what'] not in exclude]
    state = {'i': 0}

    def gen(rng):
        # first the fixed catalogue (defaults x {violating, boundary}), then random valid / singly-violating sets
        i = state['i']
        state['i'] += 1
        if i < len(entries) or sites is not None:
            return entries[i % len(entries)]
        return _random_entry(rng, rng.choice(names))

    def check(e):
        r = _construct(e['cls'], e['params'])
        site = '%s:%s' % (e['name'], e['what'])
        if e['expect'] == 'accept':
            if r != 'ok':
                return fail(site, outcome=r, expected='accepted', params=e['params'])
            return None
        if r == 'ok':
            # documented as invalid but accepted: what does a call return?
            g = e['params'].get('geometry', 2)
            pts = [[3.0] + [0.0] * (g - 1), [4.0] + [0.0] * (g - 1)] if g in (2, 3) else [[3.0, 0.0]]
            try:
                t = O.fields(e['cls'], e['params'], pts, 0.0)['burntime']
            except Exception as ex:
                t = 'raises %s: %s' % (type(ex).__name__, ex)
            return fail(site, outcome='accepted', expected='ValueError', params=e['params'], burntime=t)
        if r != 'ValueError':
            return fail(site + ':wrong-exception', outcome=r, expected='ValueError', params=e['params'])
        return None
    return O.make(gen, check, 'burn.catalogue.' + '+'.join(sorted(names)))


FINDING_SITES = ('r1-alpha1', 'r2-alpha2', 'D1=D2')
catalogue_k1 = catalogue_oracle(['Kenamond1'])
catalogue_k2 = catalogue_oracle(['Kenamond2'], exclude=FINDING_SITES)
catalogue_k3 = catalogue_oracle(['Kenamond3'])
catalogue_dsd = catalogue_oracle(['CylindricalExpansion'], exclude=FINDING_SITES)
finding_dsd = catalogue_oracle(['CylindricalExpansion'], sites=('r1-alpha1', 'r2-alpha2'))
finding_k2 = catalogue_oracle(['Kenamond2'], sites=('D1=D2',))


def _finite_gen(rng, kind=None):
    kind = kind or rng.choice(['k1', 'k2', 'k3', 'dsd'])
    if kind == 'k1':
        p = k1_params(rng)
        pts = [vec(rng, p['geometry'], -50, 50) for _ in range(6)] + [list(p['x_d'])]
    elif kind == 'k2':
        p = k2_params(rng)
        pts = [vec(rng, p['geometry'], -20 * p['R'], 20 * p['R']) for _ in range(6)] + [k2_det(p, i) for i in (1, 2, 3, 4, 5)]
        pts += [[p['R'] * u for u in unit(rng, p['geometry'])]]
    elif kind == 'k3':
        p = k3_params(rng)
        g, R = p['geometry'], p['R']
        pts = [q for q in (k3_point(rng, p, None, 1.0) for _ in range(5)) if q is not None]
        pts += [[R * u for u in unit(rng, g)], [-R * u / norm(p['x_d']) for u in p['x_d']],      # on the obstacle, antipode
                [-3 * u for u in p['x_d']], [3 * u for u in p['x_d']], list(p['x_d'])]            # collinear with the detonator
    else:
        p = dsd_params(rng)
        r1, r2 = p['r_1'], p['r_2']
        u = unit(rng, 2)
        pts = [[r * u[0], r * u[1]] for r in (0.0, 0.5 * r1, r1, 0.5 * (r1 + r2), r2, 2 * r2, 50 * r2)]
    return dict(kind=kind, params=p, pts=pts)


def _finite_check(c):
    cls, name = {'k1': (K1, 'Kenamond1'), 'k2': (K2, 'Kenamond2'), 'k3': (K3, 'Kenamond3'),
                 'dsd': (DSD, 'CylindricalExpansion')}[c['kind']]
    try:
        f = O.fields(cls, c['params'], c['pts'], 0.0)
    except ValueError as ex:
        if c['kind'] == 'k3' and 'outside' in str(ex):
            # a point computed ON the obstacle may round to just inside it: the solver's documented rejection
            return None
        return fail(name + ':rejected-valid', params=c['params'], error=str(ex))
    except Exception as ex:
        return fail(name + ':exception-in-domain', params=c['params'], error='%s: %s' % (type(ex).__name__, ex))
    for k, col in f.items():
        for x, v in zip(c['pts'], col):
            if not math.isfinite(v):
                return fail('%s:nonfinite-in-domain' % name, field=k, point=x, value=v, params=c['params'])
    return None


finite = {k: O.make(lambda rng, k=k: _finite_gen(rng, k), _finite_check, 'burn.finite.' + k) for k in ('k1', 'k2', 'k3', 'dsd')}


# --------------------------------------------------------------------------
# tie of the traced constructor trees (K1Init2, …) with the real constructors
# --------------------------------------------------------------------------

def _init_cases(rng, n):
    """(model, ordered symbol values, class path, constructor kwargs)"""
    import json
    import os
    man = json.load(open(os.path.join(lean_io.LEAN_DIR, 'EPV', 'Gen', 'gen_manifest.json')))
    out = []

    def pick(vals):
        return rng.choice(vals)
    for _ in range(n):
        g = pick([2.0, 3.0, 2.0, 3.0, 2.0, 3.0, 2.0, 3.0, 1.0, 4.0, 2.5])
        for m, cls, ln in (('K1Init2', K1, 2), ('K1Init3', K1, 3)):
            v = dict(geometry=g, D=pick([1.0, rng.uniform(0.1, 3), 0.0, -1.0]))
            kw = dict(geometry=int(g) if g == int(g) else g, D=v['D'], x_d=vec(rng, ln, -3, 3))
            out.append((m, v, cls, kw))
        for m, cls, ln in (('K3Init2', K3, 2), ('K3Init3', K3, 3)):
            R = pick([3.0, rng.uniform(0.5, 4), 0.0, -1.0])
            xd = [abs(R) * rng.choice([0.5, 1.0, 1.0, 1.5, 2.0]) * u for u in unit(rng, ln)]
            if rng.random() < 0.2:
                xd = [0.0] * (ln - 1) + [R]                       # exactly on the obstacle
            v = dict(geometry=g, R=R, D=pick([2.0, rng.uniform(0.1, 3), 0.0, -1.0]))
            v.update({'xd%d' % i: xd[i] for i in range(ln)})
            kw = dict(geometry=int(g) if g == int(g) else g, R=R, D=v['D'], x_d=xd)
            out.append((m, v, cls, kw))
        p = k2_params(rng, 2)
        bad = rng.random()
        if bad < 0.1:
            p['D1'] = p['D2']
        elif bad < 0.2:
            p['D1'] = 0.9 * p['D2']
        elif bad < 0.3:
            p['dets'][1] = p['R']
        elif bad < 0.4:
            p['t_d'][3] -= 1.0
        elif bad < 0.45:
            p['R'] = 0.0
        elif bad < 0.5:
            p['D2'] = -p['D2']
        v = dict(geometry=g, R=p['R'], D1=p['D1'], D2=p['D2'])
        v.update(dict(zip(('a1', 'a2', 'a4', 'a5'), p['dets'])))
        v.update(dict(zip(('td1', 'td2', 'td3', 'td4', 'td5'), p['t_d'])))
        out.append(('K2Init', v, K2, dict(p, geometry=int(g) if g == int(g) else g)))
        p = dsd_params(rng)
        bad = rng.random()
        if bad < 0.1:
            p['r_2'] = p['r_1']
        elif bad < 0.2:
            p['alpha_1'] = -0.1
        elif bad < 0.3:
            p['D_CJ_2'] = 0.0
        elif bad < 0.4:
            p['r_1'] = 0.5 * p['alpha_1'] / p['D_CJ_1']
        elif bad < 0.45:
            p['alpha_2'] = -1e-3
        v = {k: p[k] for k in ('r_1', 'r_2', 'D_CJ_1', 'D_CJ_2', 'alpha_1', 'alpha_2')}
        v['geometry'] = g
        kw = {k: p[k] for k in ('r_1', 'r_2', 'D_CJ_1', 'D_CJ_2', 'alpha_1', 'alpha_2')}
        kw['geometry'] = int(g) if g == int(g) else g
        out.append(('DSDCylInit', v, DSD, kw))
    cases = []
    for m, v, cls, kw in out:
        order = man[m]['params']
        cases.append((m, [v[a] for a in order], cls, kw))
    return cases


def init_tie(rng, deep):
    """Float twins of the traced constructor trees vs the real constructors: same outcome class"""
    cases = _init_cases(rng, 60 if deep else 12)
    lines = [m + ' ' + ' '.join(lean_io.bits(a) for a in args) for m, args, _, _ in cases]
    outs = lean_io.run_lines(lines)
    st = dict(evaluations=0, distinct_nontrivial=0, mismatches=[], samples=[], outcome_hist={})
    for (m, args, cls, kw), line in zip(cases, outs):
        tag, _ = lean_io.parse_result(line)
        model = 'ok' if tag.startswith('ok') else tag.split(':')[-1]
        real = _construct(cls, kw)
        st['evaluations'] += 1
        st['outcome_hist'][model] = st['outcome_hist'].get(model, 0) + 1
        if model == 'ok':
            st['distinct_nontrivial'] += 1
        if model != real:
            st['mismatches'].append(dict(model=m, kwargs=kw, model_outcome=tag, real_outcome=real))
        if len(st['samples']) < 2:
            st['samples'].append(dict(model=m, kwargs=kw, outcome=tag))
    return st
