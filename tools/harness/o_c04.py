"""C04 oracles: integral conservation of the 1-D Riemann solutions, on the REAL code.

For a random Riemann problem the public solver is called twice: once to learn the wave speeds
(`Vregs`, left on the solver object by every call; they do not depend on the time), once at
Gauss–Legendre nodes placed strictly inside every region between consecutive wave positions
`xd0 + t*Vregs` (constant regions are integrated exactly, fans are analytic) and at the two
ends of the interval [a, b] (the undisturbed states).
The three integrals of rho, rho*u, rho*(e + u^2/2) are compared with

    (xd0 - a) U_L + (b - xd0) U_R + t (F(U_L) - F(U_R)) .

A midpoint rule on a uniform grid over the whole interval cross-checks that the returned fields
have no structure the region decomposition does not know about (site '...:wave-positions').

Sites: '<Solver>:<pattern>:<mass|momentum|energy>', e.g. 'IGEOS:SCR:mass'.
The generators are biased so that all four patterns occur with velocity differences of both
signs (where the pattern allows it) and unequal gammas; the pattern x sign(ur - ul) histogram
actually hit is reported in the evidence (`worst.hist`)."""
import math
import time
import warnings

import numpy as np

from . import oracle as O

IG = 'exactpack.solvers.riemann.ep_riemann:IGEOS_Solver'
GEN = 'exactpack.solvers.riemann.ep_riemann:GenEOS_Solver'
COMP = ('mass', 'momentum', 'energy')
NGL = 16
GX, GW = np.polynomial.legendre.leggauss(NGL)

# calibrated on the unchanged tree: worst relative defect 1.1e-10 (IGEOS, 3000 cases), limited by the
# tolerance of scipy's bisect for the star pressure; GenEOS: see TOL_GEN below.
TOL_IG = 1e-8
# GenEOS: P-U tables from an ODE integration on num_int_pts pressure levels, interpolated: worst relative
# defect on the unchanged tree 1e-7 when no quadrature node falls into a smeared discontinuity; the grid
# term of check_case(grid=True) covers the smearing (observed 2.3e-3 for a density jump of 18 next to a node)
TOL_GEN = 1e-5
FLOOR = 1e-3

HIST = {}


def conserved(p, r, u, e):
    return r, r * u, r * (e + 0.5 * u * u)


def flux(p, r, u, e):
    E = r * (e + 0.5 * u * u)
    return r * u, r * u * u + p, u * (E + p)


def pattern_of(soln_type):
    s = str(soln_type)
    return s.split('-')[-1] if '-' in s else s


def log_uniform(rng, lo, hi):
    return math.exp(rng.uniform(math.log(lo), math.log(hi)))


def random_state(rng, want=None):
    """random left/right data, biased towards the wanted pattern"""
    rl, rr = log_uniform(rng, 0.1, 5.0), log_uniform(rng, 0.1, 5.0)
    pl, pr = log_uniform(rng, 0.05, 5.0), log_uniform(rng, 0.05, 5.0)
    gl, gr = rng.uniform(1.1, 3.0), rng.uniform(1.1, 3.0)
    if want == 'SCR' and pr < pl:
        pl, pr = pr, pl
    if want == 'RCS' and pl < pr:
        pl, pr = pr, pl
    al, ar = math.sqrt(gl * pl / rl), math.sqrt(gr * pr / rr)
    k = {'SCS': (-2.0, -0.2), 'RCR': (0.3, 1.6), 'SCR': (-0.6, 0.8), 'RCS': (-0.6, 0.8)}.get(want, (-2.0, 2.0))
    ul = rng.uniform(-1.5, 1.5)
    ur = ul + rng.uniform(*k) * 0.5 * (al + ar)
    return dict(rl=rl, pl=pl, ul=ul, gl=gl, rr=rr, pr=pr, ur=ur, gr=gr)


def integrals(clspath, params, V, a, b, t, n_mid=0):
    """(pattern, integrals, expected, midpoint integrals | None) from ONE public call at the Gauss nodes of
    every region between the wave positions xd0 + t*V, the midpoints of a uniform grid, and the two ends"""
    s = O.construct(clspath, params)
    xd0 = params['xd0']
    X = sorted(set([a, b] + [xd0 + t * v for v in V if a < xd0 + t * v < b]))
    nodes, wts = [], []
    for lo, hi in zip(X[:-1], X[1:]):
        nodes += list(0.5 * (lo + hi) + 0.5 * (hi - lo) * GX)
        wts += list(0.5 * (hi - lo) * GW)
    mid = []
    if n_mid:
        h = (b - a) / n_mid
        mid = [a + (i + 0.5) * h for i in range(n_mid)]
    sol = s(np.array(nodes + mid + [a, b], dtype=float), t)
    f = [np.asarray(sol[k], dtype=float) for k in ('pressure', 'density', 'velocity', 'specific_internal_energy')]
    n1, n2 = len(nodes), len(nodes) + len(mid)
    U = conserved(*[c[:n1] for c in f])
    I = [float(np.dot(wts, c)) for c in U]
    M = None
    if n_mid:
        Um = conserved(*[c[n1:n2] for c in f])
        M = [float(np.sum(c) * (b - a) / n_mid) for c in Um]
        M.append([float(np.max(c) - np.min(c)) for c in Um])
    L = [float(c[n2]) for c in f]
    R = [float(c[n2 + 1]) for c in f]
    UL, UR, FL, FR = conserved(*L), conserved(*R), flux(*L), flux(*R)
    exp = [(xd0 - a) * UL[i] + (b - xd0) * UR[i] + t * (FL[i] - FR[i]) for i in range(3)]
    V2 = [float(v) for v in np.asarray(s.Vregs)]
    # sum of the jumps of each conserved density between the last node of a region and the first node of the
    # next one, and the spacing of the solver's own grid
    var = [float(sum(abs(c[k * NGL] - c[k * NGL - 1]) for k in range(1, len(X) - 1))) for c in U]
    xs = np.asarray(getattr(s, 'x', []), dtype=float)
    h = float((xs[-1] - xs[0]) / max(len(xs) - 1, 1)) if len(xs) > 1 else 0.0
    return pattern_of(s.soln_type), V2, I, exp, M, dict(L=L, R=R, var=var, h=h)


def make_case(rng, clspath, state, extra=None, tfrac=(0.2, 0.95), window=(0.0, 1.0)):
    """window, membrane, a time for which all waves stay inside the window, and [a, b] around them"""
    xmin, xmax = window
    xd0 = xmin + rng.uniform(0.3, 0.7) * (xmax - xmin)
    p = dict(state)
    p.update(xmin=xmin, xmax=xmax, xd0=xd0)
    if extra:
        p.update(extra)
    return dict(cls=clspath, params=p, tfrac=rng.uniform(*tfrac), afrac=rng.uniform(0.0, 0.9), bfrac=rng.uniform(0.0, 0.9))


def place(case, V):
    """t, a, b from the case's fractions and the wave speeds"""
    p = case['params']
    xd0, xmin, xmax = p['xd0'], p['xmin'], p['xmax']
    vmax = max(abs(v) for v in V) or 1.0
    t = case['tfrac'] * min(xd0 - xmin, xmax - xd0) / vmax
    lo = min([xd0] + [xd0 + t * v for v in V])
    hi = max([xd0] + [xd0 + t * v for v in V])
    a = xmin + case['afrac'] * (lo - xmin)
    b = xmax - case['bfrac'] * (xmax - hi)
    return t, a, b


def check_case(case, name, tol, want=None, n_mid=2000, site_pattern=None, grid=False):
    """grid=True (general-EOS solver): the returned fields are interpolated linearly from the solver's own
    grid, which smears every discontinuity over one cell; the integral of the returned field can therefore
    differ from the exact one by up to (cell width) x (jump) / 2 per wave — the documented grid resolution;
    allowed: tol + 2 x (cell width) x (sum of the jumps)."""
    p = case['params']
    try:
        s = O.construct(case['cls'], p)
        s(np.array([p['xmin'], p['xmax']], dtype=float), 1e-6 * (p['xmax'] - p['xmin']))
        V = [float(v) for v in np.asarray(s.Vregs)]
        if not V or not all(map(math.isfinite, V)):
            return None
        t, a, b = place(case, V)
        pat, V, I, exp, M, info = integrals(case['cls'], p, V, a, b, t, n_mid=n_mid)
    except Exception:
        return None          # the solver rejects or fails on the request: C20's business
    if want and pat != want:
        return None
    key = '%s|%s' % (pat, 'ur>ul' if p['ur'] > p['ul'] else ('ur<ul' if p['ur'] < p['ul'] else 'ur=ul'))
    HIST[key] = HIST.get(key, 0) + 1
    sp = site_pattern or pat
    for i, c in enumerate(COMP):
        if not (math.isfinite(I[i]) and math.isfinite(exp[i])):
            continue
        scale = max(FLOOR, abs(I[i]), abs(exp[i]))
        err = abs(I[i] - exp[i]) / scale
        allowed = tol + (2.0 * info['h'] * info['var'][i] / scale if grid else 0.0)
        if err > allowed:
            return dict(site='%s:%s:%s' % (name, sp, c),
                        detail='t=%r [a,b]=[%r,%r] Vregs=%r integral=%r expected=%r (relative defect %.3g)'
                               % (t, a, b, V, I[i], exp[i], err))
    if M is not None:
        h = (b - a) / n_mid
        for i, c in enumerate(COMP):
            # the midpoint rule is off by at most h * (variation of the integrand) per discontinuity
            bound = 4.0 * h * (len(V) + 1) * M[3][i] + 10 * tol * max(FLOOR, abs(I[i]))
            if abs(M[i] - I[i]) > bound:
                return dict(site='%s:%s:wave-positions' % (name, sp),
                            detail='%s: region quadrature %r vs midpoint rule %r: the returned fields have '
                                   'structure away from xd0 + t*Vregs=%r' % (c, I[i], M[i], V))
    return None


def with_hist(run):
    def run2(rng, budget, deep, replay=None):
        HIST.clear()
        res = run(rng, budget, deep, replay)
        res['worst'] = dict(hist=dict(HIST))
        return res
    run2.__name__ = run.__name__
    return run2


def ig_pattern(want):
    def gen(rng):
        return make_case(rng, IG, random_state(rng, want))

    def check(c):
        return check_case(c, 'IGEOS', TOL_IG, want=want)
    return with_hist(O.make(gen, check, 'c04.igeos.' + want))


ig = {w: ig_pattern(w) for w in ('SCS', 'SCR', 'RCS', 'RCR')}


def _gen_any(rng):
    return make_case(rng, IG, random_state(rng, rng.choice(['SCS', 'SCR', 'RCS', 'RCR', None])))


# all patterns mixed, whatever the solver's classification makes of the data
ig_all = with_hist(O.make(_gen_any, lambda c: check_case(c, 'IGEOS', TOL_IG), 'c04.igeos.all'))


def _gen_identical(rng):
    """identical (p, rho, u) on the two sides, unequal gammas: a material interface at rest in the gas"""
    st = random_state(rng)
    st.update(pr=st['pl'], rr=st['rl'], ur=st['ul'])
    if abs(st['gl'] - st['gr']) < 0.05:
        st['gr'] = st['gl'] + 0.3
    return make_case(rng, IG, st)


identical = with_hist(O.make(_gen_identical,
                             lambda c: check_case(c, 'IGEOS', TOL_IG, site_pattern='identical-states'),
                             'c04.igeos.identical'))


# ---- general-EOS solver: 2 s per call, thorough tier only -----------------------------------
JWL_SETS = [
    # Shyue 2001 and Lee 2013 (the two JWL problems of the test-suite), data in their own units
    dict(state=dict(rl=1.7, ul=0., pl=10.0, gl=1.25, rr=1.0, ur=0., pr=0.5, gr=1.25),
         extra=dict(A=8.545, B=0.205, R1=4.6, R2=1.35, r0=1.84, e0=0.0, problem='JWL'), window=(0., 100.), du=1.0),
    dict(state=dict(rl=0.9525, ul=0., pl=1.0, gl=1.8938, rr=3.81, ur=0., pr=2.0, gr=1.8938),
         extra=dict(A=632.1, B=-0.04472, R1=11.3, R2=1.13, r0=1.905, e0=0.0, problem='JWL'), window=(0., 100.), du=0.3),
]


def _gen_gen_ig(rng):
    st = random_state(rng)
    # the general solver's P-U tables stop at pressure ~0: stay away from near-vacuum rarefactions
    st['ur'] = st['ul'] + 0.5 * (st['ur'] - st['ul'])
    return make_case(rng, GEN, st)


def _gen_gen_jwl(rng):
    s = rng.choice(JWL_SETS)
    st = dict(s['state'])
    # perturb densities and pressures by up to 10 %, add velocities of either sign
    for k in ('rl', 'pl', 'rr', 'pr'):
        st[k] *= rng.uniform(0.9, 1.1)
    st['ul'] = rng.uniform(-1, 1) * s['du']
    st['ur'] = rng.uniform(-1, 1) * s['du']
    return make_case(rng, GEN, st, extra=s['extra'], window=s['window'])


def thorough_only(gen, check, name):
    run = with_hist(O.make(gen, check, name))

    def run2(rng, budget, deep, replay=None):
        if not deep and replay is None:
            return dict(evaluations=0, failures=[], samples=[], worst=dict(note='thorough tier only (2 s per call)'),
                        distinct_nontrivial=0)
        # 4-8 s per case: give the sweep at least 45 s, whatever the property's oracle budget
        return run(rng, max(budget, 45.0), deep, replay)
    run2.__name__ = name
    return run2


gen_ig = thorough_only(_gen_gen_ig, lambda c: check_case(c, 'GenEOS', TOL_GEN, n_mid=0, grid=True), 'c04.geneos.igeos')
gen_jwl = thorough_only(_gen_gen_jwl, lambda c: check_case(c, 'GenEOS-JWL', TOL_GEN, n_mid=0, grid=True), 'c04.geneos.jwl')


# ---- tie: the hand model of the driver's assembly (EPV.Model.RiemannIG, Float run) vs the real code ------
def tie_assembly(rng, deep):
    """C04's own tie of the hand model its theorems are about (`RiemannIG.solveWith`/`vregs`, run on Float
    through the registered driver `RiemannIG`) against the real code: for random problems of all four patterns
    the star pressure found by the real driver's bisect is handed to the model (the atom), and pattern, wave
    speeds and the four fields returned by the PUBLIC solver at random points and next to every wave position
    are compared (relative 1e-11)."""
    from . import lean_io as IO
    from exactpack.solvers.riemann import riemann as RM
    n = 400 if deep else 40
    res = dict(evaluations=0, distinct_nontrivial=0, mismatches=[], samples=[], patterns={})
    cases, lines = [], []
    names = ('pl', 'rl', 'ul', 'gl', 'pr', 'rr', 'ur', 'gr')
    with warnings.catch_warnings():
        warnings.simplefilter('ignore')
        with np.errstate(all='ignore'):
            for k in range(n):
                st = random_state(rng, rng.choice(['SCS', 'SCR', 'RCS', 'RCR']))
                xd0 = rng.uniform(0.3, 0.7)
                try:
                    prob = RM.RiemannIGEOS(xmin=0., xd0=xd0, xmax=1., t=1.0, **st)
                    prob.driver(np.array([0.5]))
                    V = [float(v) for v in prob.Vregs]
                    px = float(prob.px)
                    t = rng.uniform(0.2, 0.95) * min(xd0, 1 - xd0) / (max(abs(v) for v in V) or 1.0)
                    pts = [rng.uniform(0., 1.) for _ in range(5)]
                    for v in V:
                        X = xd0 + t * v
                        pts += [X - 1e-7, X + 1e-7]
                    pts = sorted(pts)
                    sol = O.construct(IG, dict(st, xmin=0., xmax=1., xd0=xd0))(np.array(pts), t)
                except Exception:
                    continue
                pat = pattern_of(prob.soln_type)
                res['patterns'][pat] = res['patterns'].get(pat, 0) + 1
                for i, x in enumerate(pts):
                    real = [float(sol[f][i]) for f in ('pressure', 'density', 'velocity', 'specific_internal_energy')]
                    cases.append(dict(state=st, px=px, xd0=xd0, x=x, t=t, pattern=pat, Vregs=V, real=real))
                    lines.append('RiemannIG ' + ' '.join(IO.bits(v) for v in [st[q] for q in names] + [px, xd0, x, t]))
    if not lines:
        res['mismatches'].append(dict(why='no case could be generated'))
        return res
    out = IO.run_lines(lines)

    def close(a, b):
        return abs(a - b) <= 1e-11 * max(abs(a), abs(b)) + 1e-13

    for c, o in zip(cases, out):
        res['evaluations'] += 1
        res['distinct_nontrivial'] += 1
        w = o.split()
        bad = None
        if len(w) < 6 or w[0] != c['pattern']:
            bad = 'pattern: model %r, code %r' % (w[:1], c['pattern'])
        else:
            vals = [IO.unbits(z) for z in w[2:6]]
            Vm = [IO.unbits(z) for z in w[6:]]
            if len(Vm) != len(c['Vregs']) or not all(close(a, b) for a, b in zip(Vm, c['Vregs'])):
                bad = 'Vregs: model %r, code %r' % (Vm, c['Vregs'])
            elif not all(close(a, b) for a, b in zip(vals, c['real'])):
                bad = '(p, rho, u, e) at x: model %r, code %r' % (vals, c['real'])
        if bad and len(res['mismatches']) < 3:
            res['mismatches'].append(dict(why=bad, case=c))
        if len(res['samples']) < 1:
            res['samples'].append(dict(tie='c04.assembly', case=c, model_line=o))
    return res
