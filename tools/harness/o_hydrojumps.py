"""Oracles of the work package `hydrojumps` (C02 / C07 / C10 on the closed-form hydro solvers),
all on the REAL code through the public call.

(a) C02  jump conditions: the discontinuity x_s(t) is located by bisection on the returned
         fields (pressure > 0 behind the shock, = 0 ahead of it) at t and at t ± h, t ± h/2; the
         speed is the Richardson-extrapolated central difference of those positions ("the
         speed implied by where the solver places it at neighbouring times"); the states are
         the returned fields at x_s (1 ∓ δ).
(b) C07  route pairs (Noh/Cog19, Noh2/Noh2Cog, Noh2Cog/Cog1) and wrapper/general pairs, field by field.
(c) C10  similarity images of Noh and Cog19.

Tolerances were calibrated on the unchanged tree (worst residual observed over 2·10⁴ cases,
times 10): see the constants below."""
import math

from . import oracle as O
from py2lean.trace import load
from .corr import sample_params

# ------------------------------------------------------------------------------------------
# (a) Rankine-Hugoniot from the public call
# ------------------------------------------------------------------------------------------
# worst relative jump residual on the unchanged tree: Noh 1.9e-9, Cog19 1.9e-9, Cog21 5.6e-9
# (dominated by the one-sided offset DELTA = 1e-9 of the sampled states); margin > 10x -> 1e-7.
# Cog20 on the unchanged tree: residuals of order 1 (the known finding).
RH_TOL = 1e-7
DELTA = 1e-9


def _behind(cls, params, x, t):
    """True when the public call puts x behind the shock (non-zero pressure)"""
    f = O.fields(cls, params, [x], t)
    p = f['pressure'][0]
    if not math.isfinite(p):
        raise ValueError('non-finite pressure')
    return p > 0.0


def locate(cls, params, t, lo=1e-7, hi=1e4):
    """position of the discontinuity of the returned fields at time t, by bisection"""
    if not _behind(cls, params, lo, t) or _behind(cls, params, hi, t):
        return None
    for _ in range(200):
        mid = 0.5 * (lo + hi)
        if mid <= lo or mid >= hi:
            break
        if _behind(cls, params, mid, t):
            lo = mid
        else:
            hi = mid
    return 0.5 * (lo + hi)


def shock_speed(cls, params, t, h):
    """Richardson-extrapolated central difference of the located position"""
    xs = {}
    for k in (-1.0, -0.5, 0.5, 1.0):
        xs[k] = locate(cls, params, t + k * h)
        if xs[k] is None:
            return None
    d1 = (xs[1.0] - xs[-1.0]) / (2 * h)
    d2 = (xs[0.5] - xs[-0.5]) / h
    return (4 * d2 - d1) / 3


def fluxes(rho, u, p, e, D):
    m = rho * (u - D)
    return (m, m * u + p, m * (e + 0.5 * u * u) + p * u)


def jump_residuals(cls, params, t, h):
    x = locate(cls, params, t)
    if x is None:
        return None
    D = shock_speed(cls, params, t, h)
    if D is None:
        return None
    f = O.fields(cls, params, [x * (1 - DELTA), x * (1 + DELTA)], t)
    st = [tuple(f[n][i] for n in ('density', 'velocity', 'pressure', 'specific_internal_energy')) for i in (0, 1)]
    if not all(math.isfinite(v) for s in st for v in s):
        return None
    if not (st[0][2] > 0.0 and st[1][2] == 0.0):
        return None
    a, b = fluxes(*st[0], D), fluxes(*st[1], D)
    # scale of each balance: the larger of its two terms on either side
    m = max(abs(st[0][0] * st[0][1]), abs(st[0][0] * D), abs(st[1][0] * st[1][1]), abs(st[1][0] * D))
    scales = (m,
              max(m * max(abs(st[0][1]), abs(st[1][1]), abs(D)), st[0][2]),
              max(m * max(st[0][3], st[1][3], 0.5 * st[0][1] ** 2, 0.5 * st[1][1] ** 2),
                  st[0][2] * max(abs(st[0][1]), abs(D))))
    res = tuple(abs(a[i] - b[i]) / max(scales[i], 1e-300) for i in range(3))
    return dict(x=x, D=D, inner=st[0], outer=st[1], res=res)


def rankine_hugoniot(name, cls, gen_params, tol=RH_TOL, first=None):
    """`first`: (params, t) tried before the random cases (the witness of a Lean `Finding` theorem)"""
    state = dict(n=0)

    def gen(rng):
        state['n'] += 1
        p, t = first if (first is not None and state['n'] == 1) else gen_params(rng)
        return dict(cls=cls, params=dict(p), t=t, h=3e-3 * t)

    def check(c):
        try:
            r = jump_residuals(c['cls'], c['params'], c['t'], c['h'])
            if r is not None and max(r['res']) > tol:
                # confirm with a halved time step (finite-difference error would shrink 16x)
                r2 = jump_residuals(c['cls'], c['params'], c['t'], c['h'] / 2)
                if r2 is None or max(r2['res']) <= tol:
                    return None
                r = r2
        except Exception:
            return None
        if r is None or max(r['res']) <= tol:
            return None
        return dict(site='%s:shock-position' % name,
                    detail='t=%r: discontinuity of the returned fields at x=%r moving with D=%r; relative jump of '
                           '(mass, momentum, energy) flux = (%.3g, %.3g, %.3g); inner (rho,u,p,e)=%r outer=%r'
                           % (c['t'], r['x'], r['D'], r['res'][0], r['res'][1], r['res'][2], r['inner'], r['outer']))
    return O.make(gen, check, 'c02.rh.' + name)


def _noh_params(rng):
    return (dict(geometry=rng.choice([1, 2, 3]), gamma=rng.uniform(1.05, 3.0), u0=-rng.uniform(0.2, 3.0),
                 rho0=rng.uniform(0.2, 5.0)), rng.uniform(0.05, 2.0))


def _cog19_params(rng):
    return (dict(geometry=rng.choice([1, 2, 3]), gamma=rng.uniform(1.05, 3.0), u0=-rng.uniform(0.3, 4.0),
                 rho0=rng.uniform(0.5, 3.0), Gamma=rng.uniform(10.0, 60.0)), rng.uniform(0.05, 2.0))


def _cog20_params(rng):
    # u0 and a of the same sign, so that the coded position is positive; defaults are u0=2.3, a=0.3
    s = rng.choice([1.0, -1.0])
    a = s * rng.uniform(0.1, 0.5)
    t = rng.uniform(0.05, 0.8 / (2 * abs(a))) if s > 0 else rng.uniform(0.05, 2.0)
    return (dict(geometry=rng.choice([1, 2, 3]), gamma=rng.uniform(1.05, 3.0), u0=s * rng.uniform(0.5, 3.0), a=a,
                 rho0=rng.uniform(0.5, 3.0), Gamma=rng.uniform(10.0, 60.0)), t)


def _cog21_params(rng):
    return (dict(rho0=rng.uniform(0.5, 3.0), temp0=rng.uniform(1.0, 5.0), Gamma=rng.uniform(100.0, 600.0)),
            rng.uniform(0.02, 0.5))


rh_noh = rankine_hugoniot('Noh', 'exactpack.solvers.noh.noh1:Noh', _noh_params)
rh_cog19 = rankine_hugoniot('Cog19', 'exactpack.solvers.cog.cog19:Cog19', _cog19_params)
# first case = the witness of EPV.C02.cog20_jump_fails: the class defaults at t = 1/2
rh_cog20 = rankine_hugoniot('Cog20', 'exactpack.solvers.cog.cog20:Cog20', _cog20_params,
                            first=(dict(geometry=3, gamma=1.4, rho0=1.8, u0=2.3, a=0.3, Gamma=40.0), 0.5))
rh_cog21 = rankine_hugoniot('Cog21', 'exactpack.solvers.cog.cog21:Cog21', _cog21_params)

# ------------------------------------------------------------------------------------------
# (b) routes
# ------------------------------------------------------------------------------------------
# two closed forms of the same real function: worst relative difference on the unchanged tree
# 7.2e-16 (Noh/Cog19), 5.9e-16 (Noh2/Noh2Cog), 0 (Noh2Cog/Cog1 and every wrapper: same code);
# margin 10x and room for the power function -> 1e-13
ROUTE_TOL = 1e-13
FIELDS4 = ('density', 'velocity', 'pressure', 'specific_internal_energy')


def _cmp(site, pts, fa, fb, names, tol=ROUTE_TOL, map_b=None, label=('A', 'B')):
    for n in names:
        for i, x in enumerate(pts):
            a, b = fa[n][i], (map_b or {}).get(n, lambda v: v)(fb[n][i])
            if not (math.isfinite(a) and math.isfinite(b)):
                if math.isfinite(a) != math.isfinite(b):
                    return dict(site='%s:%s' % (site, n), detail='x=%r %s=%r %s=%r' % (x, label[0], a, label[1], b))
                continue
            if abs(a - b) > tol * max(abs(a), abs(b)) + 1e-300:
                return dict(site='%s:%s' % (site, n), detail='x=%r %s=%r %s=%r' % (x, label[0], a, label[1], b))
    return None


def _away(pts, x0, rel=1e-9):
    """points not within rounding distance of a branch point x0"""
    return [x for x in pts if abs(x - x0) > rel * max(abs(x0), abs(x))]


def _gen_noh_cog19(rng):
    p = dict(geometry=rng.choice([1, 2, 3]), gamma=rng.uniform(1.05, 3.0), u0=-rng.uniform(0.2, 3.0),
             rho0=rng.uniform(0.2, 5.0))
    return dict(params=p, Gamma=rng.uniform(5.0, 80.0), pts=sorted(rng.uniform(0.01, 2.0) for _ in range(6)),
                t=rng.uniform(0.05, 2.0))


def _chk_noh_cog19(c):
    p = c['params']
    pts = _away(c['pts'], abs(p['u0']) * c['t'] * (p['gamma'] - 1) / 2)
    if not pts:
        return None
    fa = O.try_fields('exactpack.solvers.noh.noh1:Noh', p, pts, c['t'])
    fb = O.try_fields('exactpack.solvers.cog.cog19:Cog19', dict(p, Gamma=c['Gamma']), pts, c['t'])
    if fa is None or fb is None:
        return None
    f = _cmp('Noh=Cog19', pts, fa, fb, FIELDS4 + ('position',), label=('Noh', 'Cog19'))
    if f:
        return f
    g, G = p['gamma'], c['Gamma']
    for i, x in enumerate(pts):
        T, e = fb['temperature'][i], fa['specific_internal_energy'][i]
        if abs(T - (g - 1) * e / G) > ROUTE_TOL * max(abs(T), abs((g - 1) * e / G)) + 1e-300:
            return dict(site='Noh=Cog19:temperature', detail='x=%r T_Cog19=%r (gamma-1) e_Noh / Gamma=%r' % (x, T, (g - 1) * e / G))
    return None


noh_cog19 = O.make(_gen_noh_cog19, _chk_noh_cog19, 'c07.noh_cog19')


def _gen_noh2(rng):
    return dict(params=dict(geometry=rng.choice([1, 2, 3]), gamma=rng.uniform(1.05, 3.0), e0=rng.uniform(0.2, 3.0),
                            rho0=rng.uniform(0.2, 5.0)),
                pts=sorted(rng.uniform(0.01, 2.0) for _ in range(6)), t=rng.uniform(0.0, 0.98))


def _chk_noh2_noh2cog(c):
    fa = O.try_fields('exactpack.solvers.noh2.noh2:Noh2', c['params'], c['pts'], c['t'])
    fb = O.try_fields('exactpack.solvers.noh2.noh2_cog:Noh2Cog', c['params'], c['pts'], c['t'])
    if fa is None or fb is None:
        if (fa is None) != (fb is None):
            return dict(site='Noh2=Noh2Cog:raises', detail='Noh2 %s, Noh2Cog %s' % ('raised' if fa is None else 'returned',
                                                                                  'raised' if fb is None else 'returned'))
        return None
    return _cmp('Noh2=Noh2Cog', c['pts'], fa, fb, FIELDS4 + ('position',), label=('Noh2', 'Noh2Cog'))


def _chk_noh2cog_cog1(c):
    p = c['params']
    fa = O.try_fields('exactpack.solvers.noh2.noh2_cog:Noh2Cog', p, c['pts'], c['t'])
    q = dict(geometry=p['geometry'], gamma=p['gamma'], rho0=p['rho0'], b=0, Gamma=1.0, temp0=p['e0'] * (p['gamma'] - 1) / 1.0)
    fb = O.try_fields('exactpack.solvers.cog.cog1:Cog1', q, c['pts'], 1.0 - c['t'])
    if fa is None or fb is None:
        return None
    return _cmp('Noh2Cog=Cog1', c['pts'], fa, fb, FIELDS4 + ('temperature', 'position'), map_b={'velocity': lambda v: -v},
                label=('Noh2Cog', 'Cog1(b=0, 1-t, -u)'))


noh2_noh2cog = O.make(_gen_noh2, _chk_noh2_noh2cog, 'c07.noh2_noh2cog')
noh2cog_cog1 = O.make(_gen_noh2, _chk_noh2cog_cog1, 'c07.noh2cog_cog1')

# documented values of the parameters a wrapper does not declare (besides geometry): Kidder74 b=3, Kidder76 b=0
WRAPPER_DOC = {'Kidder74': {'b': 3.0}, 'Kidder76': {'b': 0.0}}


def wrapper_oracle(ws):
    """ws: the WRAPPERS records (targets/t_wrappers.py) of one general class"""
    parent = ws[0]['parent']

    def gen(rng):
        w = rng.choice(ws)
        _, W = load(w['cls'])
        p = sample_params(W, w['params'], rng)
        lo, hi = w['r']
        return dict(wrapper=w['name'], cls=w['cls'], parent_cls=w['parent_cls'], geometry=w['geometry'], params=p,
                    pts=sorted(rng.uniform(lo, hi) for _ in range(5)), t=rng.uniform(*w['t']))

    def check(c):
        _, W = load(c['cls'])
        _, M = load(c['parent_cls'])
        q = dict(c['params'], geometry=c['geometry'])
        for k in M.parameters:
            if k not in q:
                q[k] = WRAPPER_DOC.get(c['wrapper'], {}).get(k, getattr(M, k))
        fa = O.try_fields(c['cls'], c['params'], c['pts'], c['t'])
        fb = O.try_fields(c['parent_cls'], q, c['pts'], c['t'])
        if fa is None or fb is None:
            if (fa is None) != (fb is None):
                return dict(site='%s:raises' % c['wrapper'],
                            detail='%s %s, %s(geometry=%d) %s' % (c['wrapper'], 'raised' if fa is None else 'returned', parent,
                                                                 c['geometry'], 'raised' if fb is None else 'returned'))
            return None
        if list(fa.keys()) != list(fb.keys()):
            return dict(site='%s:fields' % c['wrapper'], detail='%r vs %r' % (list(fa), list(fb)))
        return _cmp(c['wrapper'], c['pts'], fa, fb, list(fa.keys()), label=(c['wrapper'], '%s(geometry=%d)' % (parent, c['geometry'])))
    return O.make(gen, check, 'c07.wrappers.' + parent)


def wrapper_oracles():
    from py2lean.targets.t_wrappers import WRAPPERS
    by = {}
    for w in WRAPPERS:
        by.setdefault(w['parent'], []).append(w)
    return {k: wrapper_oracle(v) for k, v in by.items()}


# ------------------------------------------------------------------------------------------
# (c) similarity images
# ------------------------------------------------------------------------------------------
# worst relative difference on the unchanged tree 9.8e-16 (Noh), 1.1e-15 (Cog19); 10x and room for pow
SIM_TOL = 1e-13


def similarity(name, cls, gen_params, shock):
    def gen(rng):
        p, t = gen_params(rng)
        return dict(cls=cls, params=p, t=t, s=math.exp(rng.uniform(-3.0, 3.0)),
                    pts=sorted(rng.uniform(0.01, 2.0) for _ in range(6)))

    def check(c):
        pts = _away(c['pts'], shock(c['params'], c['t']))
        if not pts:
            return None
        s = c['s']
        fa = O.try_fields(c['cls'], c['params'], pts, c['t'])
        fb = O.try_fields(c['cls'], c['params'], [s * x for x in pts], s * c['t'])
        if fa is None or fb is None:
            return None
        names = [n for n in fa if n != 'position']
        f = _cmp(name + ':similarity', pts, fa, fb, names, tol=SIM_TOL, label=('(r,t)', '(s r,s t) s=%r' % s))
        if f:
            return f
        return _cmp(name + ':similarity', pts, fa, fb, ['position'], tol=SIM_TOL, map_b={'position': lambda v: v / s},
                    label=('(r,t)', '(s r,s t)/s s=%r' % s))
    return O.make(gen, check, 'c10.similarity.' + name)


sim_noh = similarity('Noh', 'exactpack.solvers.noh.noh1:Noh', _noh_params,
                     lambda p, t: abs(p['u0']) * t * (p['gamma'] - 1) / 2)
sim_cog19 = similarity('Cog19', 'exactpack.solvers.cog.cog19:Cog19', _cog19_params,
                       lambda p, t: -(p['gamma'] - 1) * p['u0'] * t / 2)


# ------------------------------------------------------------------------------------------
# tie of the wrapper models: Float twin of every traced wrapper vs the real wrapper class,
# all wrappers in ONE run of the Lean driver (60 separate runs would cost 45 s of start-up)
# ------------------------------------------------------------------------------------------
class _Recorded(Exception):
    pass


def wrappers_tie(names, n_quick=8, n_deep=80):
    """tie(rng, deep) comparing the generated Float twins of `names` with the real classes;
    uses harness.corr.run_model for the comparison itself (cases are generated twice from the
    same seed: once to collect the driver lines, once to compare)."""
    def tie(rng, deep):
        import json
        import os
        import random
        from . import corr, lean_io
        from py2lean import targets as T
        man = json.load(open(os.path.join(lean_io.LEAN_DIR, 'EPV', 'Gen', 'gen_manifest.json')))
        n = n_deep if deep else n_quick
        seeds = {m: rng.randrange(1 << 30) for m in names}
        todo = [m for m in names if man.get(m, {}).get('status') == 'ok']
        res = dict(evaluations=0, distinct_nontrivial=0, mismatches=[], samples=[])
        for m in names:
            if m not in todo:
                res['mismatches'].append(dict(model=m, why='model was not generated: %s' % man.get(m, {}).get('error')))
        real = lean_io.run_lines
        lines = {}
        try:
            def rec(ls, timeout=900):
                raise _Recorded(ls)
            lean_io.run_lines = rec
            for m in todo:
                try:
                    corr.run_model(m, man[m], T.by_name(m)['corr'], n, random.Random(seeds[m]))
                except _Recorded as ex:
                    lines[m] = list(ex.args[0])
            lean_io.run_lines = real
            flat = [l for m in todo for l in lines[m]]
            outs = real(flat) if flat else []
            pos = 0
            for m in todo:
                chunk = outs[pos:pos + len(lines[m])]
                pos += len(lines[m])
                lean_io.run_lines = (lambda ch: (lambda ls, timeout=900: ch))(chunk)
                st = corr.run_model(m, man[m], T.by_name(m)['corr'], n, random.Random(seeds[m]))
                res['evaluations'] += st['evaluations']
                res['distinct_nontrivial'] += st['distinct_nontrivial']
                res['mismatches'] += st['mismatches'][:1]
                if len(res['samples']) < 2:
                    res['samples'] += st['samples'][:1]
        finally:
            lean_io.run_lines = real
        return res
    return tie
