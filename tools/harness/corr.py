"""harness.corr -- correspondence between the generated Float twins (run by
Lean) and the real ExactPack code, on the same inputs.

This is differential *testing* of the translator: the model and the code are
the same program, so any disagreement means the tie is broken."""
import math
import random
import warnings

import numpy as np

from . import lean_io
from py2lean.trace import load

ARITH = ('ZeroDivisionError', 'OverflowError', 'FloatingPointError')


def sample_params(cls, spec, rng):
    """structured, mostly-valid parameter sets: documented ranges where the
    target gives them, else the class default perturbed by ±50 %"""
    out = {}
    for p in cls.parameters:
        s = (spec or {}).get(p)
        if s is None:
            d = getattr(cls, p, None)
            if isinstance(d, bool) or d is None or not isinstance(d, (int, float, np.floating, np.integer)):
                continue
            if p == 'geometry':
                out[p] = d
                continue
            d = float(d)
            out[p] = d * rng.uniform(0.5, 1.5) if d != 0 else rng.uniform(-1, 1)
        elif isinstance(s, list):
            out[p] = rng.choice(s)
        elif isinstance(s, tuple):
            out[p] = rng.uniform(s[0], s[1])
        elif callable(s):
            out[p] = s(rng, out)
        else:
            out[p] = s
    return out


def call_real(cls, params, pt, t):
    """returns (tag, names, values)"""
    with warnings.catch_warnings():
        warnings.simplefilter('ignore')
        try:
            with np.errstate(all='ignore'):
                s = cls(**params)
                pts = np.array([pt[0]]) if len(pt) == 1 else np.array([list(pt)])
                sol = s(pts, t)
            names = list(sol.dtype.names)
            if any(sol.dtype[n].kind == 'c' for n in names):
                # Python left the reals (negative base under a real exponent): the
                # whole record counts as non-real, whatever cancels afterwards
                return 'complex', names, []
            vals = []
            for n in names:
                v = sol[n][0]
                if isinstance(v, (complex, np.complexfloating)):
                    v = float('nan') if v.imag != 0 else v.real
                try:
                    vals.append(float(v))
                except (TypeError, ValueError):
                    vals.append(None)
            return 'ok', names, vals
        except Exception as ex:
            return 'raise:' + type(ex).__name__, [], []


def close(a, b, rtol):
    if a is None or b is None:
        return True
    fa, fb = math.isfinite(a), math.isfinite(b)
    if not fa or not fb:
        return (not fa) and (not fb)
    return abs(a - b) <= rtol * max(abs(a), abs(b)) + 1e-300


def run_model(name, entry, spec, n, rng, rtol=1e-11):
    """entry: gen_manifest record; spec: target['corr'] dict.
    returns dict(evaluations, mismatches[list], leaf_hist, outcome_hist, samples)"""
    _, cls = load(spec['cls'])
    order = entry['params'] + entry['pvars'] + ([entry['tvar']] if entry['tvar'] else [])
    cases = []
    lines = []
    for i in range(n):
        for _try in range(50):
            params = sample_params(cls, spec.get('params'), rng)
            pt = [rng.uniform(*spec.get(v, spec.get('r', (0.05, 3.0)))) for v in entry['pvars']]
            t = rng.uniform(*spec.get('t', (0.05, 1.0))) if entry['tvar'] else 0.0
            if 'fix' in spec:
                params, pt, t = spec['fix'](rng, params, pt, t)
            if 'valid' not in spec or spec['valid'](params, pt, t):
                break
        vals = dict(params)
        for v, x in zip(entry['pvars'], pt):
            vals[v] = x
        if entry['tvar']:
            vals[entry['tvar']] = t
        try:
            args = [float(vals[a]) for a in order]
        except KeyError as ex:
            raise RuntimeError('%s: model symbol %s has no sampled value' % (name, ex))
        cases.append((params, pt, t))
        lines.append(name + ' ' + ' '.join(lean_io.bits(a) for a in args))
    outs = lean_io.run_lines(lines)
    stats = dict(evaluations=0, mismatches=[], leaf_hist={}, outcome_hist={}, samples=[], distinct=set())
    for (params, pt, t), line in zip(cases, outs):
        tag, mvals = lean_io.parse_result(line)
        rtag, names, rvals = call_real(cls, params, pt, t)
        stats['evaluations'] += 1
        kind = tag.split(':')[0]
        leaf = tag.split(':')[1] if ':' in tag else '?'
        stats['leaf_hist'][leaf] = stats['leaf_hist'].get(leaf, 0) + 1
        bad = None
        if kind == 'ok' and rtag == 'complex':
            oc = 'nonfinite'
            if all(math.isfinite(v) for v in mvals):
                bad = 'code left the reals, model finite'
        elif kind == 'ok':
            if rtag != 'ok':
                # arithmetic trouble in Python scalars shows up as non-finite numbers in the twin
                if rtag.split(':')[1] in ARITH + ('TypeError',) and any(not math.isfinite(v) for v in mvals):
                    oc = 'nonfinite'
                else:
                    bad = 'model ok, code %s' % rtag
                    oc = 'mismatch'
            else:
                oc = 'ok'
                if names != entry['fields']:
                    bad = 'field names differ: code %r model %r' % (names, entry['fields'])
                else:
                    for nm, a, b in zip(names, rvals, mvals):
                        if not close(a, b, rtol):
                            bad = 'field %s: code %r model %r' % (nm, a, b)
                            break
                    if all(v is None or math.isfinite(v) for v in rvals):
                        stats['distinct'].add(line)
                    else:
                        oc = 'nonfinite'
        elif kind == 'nan':
            oc = 'nan'
            if rtag == 'ok':
                if all(v is None or math.isfinite(v) for v in rvals[len(entry['pvars']):]):
                    bad = 'model nan, code finite'
            elif rtag.split(':')[1] not in ARITH:
                bad = 'model nan, code %s' % rtag
        else:
            oc = 'raise:' + tag.split(':')[2]
            if rtag != oc:
                bad = 'model %s, code %s' % (tag, rtag)
        stats['outcome_hist'][oc] = stats['outcome_hist'].get(oc, 0) + 1
        if bad:
            stats['mismatches'].append(dict(model=name, params=params, point=pt, t=t, why=bad))
        if len(stats['samples']) < 2:
            stats['samples'].append(dict(model=name, params=params, point=pt, t=t, outcome=tag))
    stats['distinct_nontrivial'] = len(stats.pop('distinct'))
    return stats
