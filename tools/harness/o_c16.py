"""C16 (and the black-box-Noh parts of C02/C03): oracles on the REAL code and ties of the traced function
models / the Newton hand model to it.

Oracles (tests, never a substitute for the theorems):
  * closure round trips  P(rho, e(rho,P)) = P,  e(rho, P(rho,e)) = e  for every EOS class;
  * every analytic derivative method against central finite differences with step halving
    (a discrepancy is reported only when it exceeds the observed truncation error by a wide margin);
  * finite-difference Jacobians of the four residual classes, F_prime_inv . F_prime = I, determinant;
  * Newton from starting guesses within +-30 % of the physical solution: jump conditions and D > 0;
  * the default starting guess of NohBlackBoxEos (finding: spurious root, D = u0 < 0).
Ties:
  * Float twin of every traced EOS method / residual method / `_run` vs a direct call of the real method on
    the same random inputs (including the guards: rho = 0, eta = 1, gamma = 1);
  * the Newton hand model (EPV.Model.Newton) vs the real solver: outcome, iteration count, solution.
"""
import importlib
import json
import math
import os

import numpy as np

from . import lean_io
from . import oracle as O
from py2lean.targets import t_eos as TE

L = importlib.import_module(TE.EOSMOD)
R = importlib.import_module(TE.RESMOD)
NS = importlib.import_module('exactpack.solvers.nohblackboxeos.solution_tools.newton_solvers')
BB = importlib.import_module(TE.BBMOD)

SITE = {'Ideal': 'IdealGas', 'Stiff': 'StiffenedGas', 'NobleAbel': 'NobleAbel', 'CS': 'CarnahanStarling',
        'Stein': 'Steinberg'}
ALUMINIUM = dict(reference_density=2.703, reference_pressure=0.0, reference_gruneisen=1.97, b=0.48, c_0=0.524e6,
                 s_1=1.40, s_2=0.0, s_3=0.0)


def manifest():
    return json.load(open(os.path.join(lean_io.LEAN_DIR, 'EPV', 'Gen', 'gen_manifest.json')))


# --------------------------------------------------------------------------
# sampling: constants and states inside the domain of validity of each EOS
# --------------------------------------------------------------------------

def make_eos(short, consts):
    clsname, names = TE.EOS_CLASSES[short]
    return getattr(L, clsname)(*[consts[n] for n in names])


def sample_consts(short, rng):
    g = rng.choice([5. / 3., 1.4, rng.uniform(1.1, 3.0)])
    if short == 'Ideal':
        return dict(gamma=g)
    if short == 'Stiff':
        return dict(gamma=g, c_s=rng.uniform(0.5, 3.0), rho_inf=rng.uniform(0.2, 3.0))
    if short == 'NobleAbel':
        return dict(gamma=g, b=rng.choice([0.01, rng.uniform(0.0, 0.05)]))
    if short == 'CS':
        return dict(gamma=g, b=rng.choice([1.0, rng.uniform(0.05, 1.0)]))
    if short == 'Stein':
        if rng.random() < 0.4:
            return dict(ALUMINIUM)
        return dict(reference_density=rng.uniform(1.5, 4.0), reference_pressure=rng.choice([0.0, rng.uniform(0, 1e9)]),
                    reference_gruneisen=rng.uniform(1.0, 3.0), b=rng.uniform(0.2, 1.0), c_0=rng.uniform(2e5, 8e5),
                    s_1=rng.uniform(1.0, 1.8), s_2=rng.choice([0.0, rng.uniform(0, 0.2)]),
                    s_3=rng.choice([0.0, rng.uniform(0, 0.1)]))
    raise KeyError(short)


def sample_state(short, c, rng, branch=None):
    """(rho, P, e) in the domain; Steinberg: branch 'exp' (rho < rho_ref) or 'comp' (rho > rho_ref)"""
    if short == 'Stein':
        r0 = c['reference_density']
        if branch is None:
            branch = rng.choice(['exp', 'comp'])
        rho = r0 * (rng.uniform(0.6, 0.95) if branch == 'exp' else rng.uniform(1.05, 1.4))
        return rho, rng.uniform(1e9, 1e12), rng.uniform(1e8, 1e11)
    if short == 'CS':
        rho = rng.uniform(0.02, 0.7) / c['b']
    elif short == 'NobleAbel':
        rho = rng.uniform(0.1, 10.0)
    else:
        rho = rng.uniform(0.1, 10.0)
    return rho, rng.uniform(0.05, 10.0), rng.uniform(0.05, 10.0)


# --------------------------------------------------------------------------
# finite differences with step halving
# --------------------------------------------------------------------------

def fd(f, x, h0=None, levels=6):
    """central differences with step halving and one Richardson step.
    returns (estimate, uncertainty): uncertainty = change over the last halving (truncation + round-off seen)"""
    h = h0 if h0 is not None else 2e-3 * max(abs(x), 1e-3)
    est = []
    for _ in range(levels):
        est.append((f(x + h) - f(x - h)) / (2 * h))
        h /= 2
    # pick the level where successive estimates agree best (round-off grows when h gets tiny)
    k = min(range(1, levels), key=lambda i: abs(est[i] - est[i - 1]))
    best = est[k] + (est[k] - est[k - 1]) / 3.0
    return best, abs(est[k] - est[k - 1])


def disagree(analytic, f, x, rtol=2e-6, scale=0.0):
    """None when the analytic derivative is consistent with finite differences, else (fd, analytic)"""
    best, unc = fd(f, x)
    if not (math.isfinite(best) and math.isfinite(analytic)):
        return None if math.isfinite(best) == math.isfinite(analytic) else (best, analytic)
    tol = rtol * max(abs(best), abs(analytic), scale) + 50 * unc
    if abs(best - analytic) <= tol:
        return None
    # confirm with a different starting step before reporting
    best2, unc2 = fd(f, x, h0=0.7e-3 * max(abs(x), 1e-3))
    if abs(best2 - analytic) <= rtol * max(abs(best2), abs(analytic), scale) + 50 * unc2:
        return None
    return best, analytic


# --------------------------------------------------------------------------
# EOS oracles
# --------------------------------------------------------------------------

def roundtrip(short):
    def gen(rng):
        c = sample_consts(short, rng)
        rho, P, e = sample_state(short, c, rng)
        return dict(eos=short, consts=c, rho=rho, P=P, e=e)

    def check(c):
        eos = make_eos(c['eos'], c['consts'])
        rho, P, e = c['rho'], c['P'], c['e']
        try:
            P2 = eos.P(rho, eos.e(rho, P))
            e2 = eos.e(rho, eos.P(rho, e))
        except Exception:
            return None
        if O.relerr(P2, P) > 1e-9:
            return dict(site='%s:P(rho,e(rho,P))' % SITE[c['eos']], detail='P=%r back %r' % (P, P2))
        if O.relerr(e2, e) > 1e-9:
            return dict(site='%s:e(rho,P(rho,e))' % SITE[c['eos']], detail='e=%r back %r' % (e, e2))
        return None
    return O.make(gen, check, 'c16.roundtrip.' + short)


# derivative method -> (closure, which argument, which state variable is the second argument)
DERIV = {
    'de_drho': ('e', 0, 'P'), 'de_dP': ('e', 1, 'P'), 'dP_drho': ('P', 0, 'e'), 'dP_de': ('P', 1, 'e'),
}
HELPER = {   # helper derivative -> (closure, argument kind)
    'CS': {'dZ_deta': ('Z', 'eta'), 'deta_drho': ('eta', 'rho')},
    'Stein': {'deta_drho': ('eta', 'rho'), 'dgru_drho': ('gruneisen', 'rho'), 'dPinf_drho': ('P_inf', 'rho'),
              'deinf_drho': ('e_inf', 'rho'), 'dpoly_deta': ('poly', 'eta')},
}


def deriv_oracle(short, methods, branch=None, name=None):
    """finite-difference check of the listed derivative methods, called with the documented argument order"""
    def gen(rng):
        c = sample_consts(short, rng)
        rho, P, e = sample_state(short, c, rng, branch)
        return dict(eos=short, consts=c, rho=rho, P=P, e=e, methods=list(methods))

    def check(c):
        eos = make_eos(c['eos'], c['consts'])
        rho = c['rho']
        for m in c['methods']:
            try:
                if m in DERIV:
                    clo, arg, second = DERIV[m]
                    y = c[second]
                    an = getattr(eos, m)(rho, y)
                    f = getattr(eos, clo)
                    d = disagree(an, (lambda r: f(r, y)) if arg == 0 else (lambda q: f(rho, q)), rho if arg == 0 else y)
                    where = 'rho=%r %s=%r' % (rho, second, y)
                else:
                    clo, kind = HELPER[c['eos']][m]
                    x = rho if kind == 'rho' else eos.eta(rho)
                    an = getattr(eos, m)(x)
                    d = disagree(an, getattr(eos, clo), x)
                    where = '%s=%r' % (kind, x)
            except Exception:
                continue
            if d is not None:
                return dict(site='%s:%s' % (SITE[c['eos']], m),
                            detail='%s: finite differences %r, %s returns %r' % (where, d[0], m, d[1]))
        return None
    return O.make(gen, check, name or ('c16.deriv.%s.%s' % (short, '+'.join(methods))))


# --------------------------------------------------------------------------
# residual classes
# --------------------------------------------------------------------------
RESCLS = {k: getattr(R, v[0]) for k, v in TE.RESIDUALS.items()}
# EOS classes whose derivative methods needed by the residual are correct (hypothesis of the Jacobian theorems)
GOOD_EOS = {'Energy': ['Ideal', 'Stiff', 'NobleAbel', 'SteinExp'], 'SEnergy': ['Ideal', 'Stiff', 'NobleAbel', 'SteinExp'],
            'Pressure': ['Ideal', 'Stiff', 'NobleAbel', 'CS', 'SteinExp'],
            'SPressure': ['Ideal', 'Stiff', 'NobleAbel', 'CS', 'SteinExp']}


def sample_residual_case(res, rng, eoss=None, p0_nonzero=None):
    n = len(TE.RESIDUALS[res][1])
    e = rng.choice(eoss or GOOD_EOS[res])
    short, branch = ('Stein', 'exp') if e == 'SteinExp' else (e, None)
    c = sample_consts(short, rng)
    rho, P, en = sample_state(short, c, rng, branch)
    sym = rng.choice([0, 1, 2]) if n == 3 else 0
    if p0_nonzero is None:
        p0_nonzero = (n == 3 and sym == 0 and rng.random() < 0.5)
    if p0_nonzero:
        sym = 0
    scale = P if short == 'Stein' else 1.0
    ic = dict(density=(rho * rng.uniform(0.2, 0.8) if short == 'Stein' else rng.uniform(0.5, 2.0)),
              velocity=-rng.uniform(0.3, 2.0) * (3e5 if short == 'Stein' else 1.0),
              pressure=(rng.uniform(0.05, 0.5) * scale if p0_nonzero else 0.0), symmetry=sym)
    second = P if TE.RESIDUALS[res][1][1] == 'pres' else en
    D = rng.uniform(0.1, 1.5) * (-1 if rng.random() < 0.2 else 1) * (3e5 if short == 'Stein' else 1.0)
    x = [rho, second] + ([D] if n == 3 else [])
    return dict(res=res, eos=short, consts=c, ic=ic, x=x)


def build_residual(c):
    return RESCLS[c['res']](dict(c['ic']), make_eos(c['eos'], c['consts']))


def jacobian_oracle(res, skip_20_when_p0=False, only=None, eoss=None, p0_nonzero=None, name=None):
    """finite-difference Jacobian of F against F_prime, entry by entry"""
    def gen(rng):
        return sample_residual_case(res, rng, eoss, p0_nonzero)

    def check(c):
        try:
            r = build_residual(c)
            x = np.array(c['x'], dtype=float)
            J = np.array(r.F_prime(x), dtype=float).copy()
        except Exception:
            return None
        n = len(x)
        for j in range(n):
            for i in range(n):
                if only is not None and (i, j) != only:
                    continue
                if skip_20_when_p0 and (i, j) == (2, 0) and c['ic']['pressure'] != 0:
                    continue

                def f(v, i=i, j=j):
                    y = x.copy()
                    y[j] = v
                    return float(r.F(y)[i])
                colscale = max(abs(J[i, k] * x[k]) for k in range(n)) / max(abs(x[j]), 1e-300)
                try:
                    d = disagree(float(J[i, j]), f, float(x[j]), scale=1e-3 * colscale)
                except Exception:
                    continue
                if d is not None:
                    return dict(site='%s:DF[%d,%d]' % (TE.RESIDUALS[c['res']][0], i, j),
                                detail='finite differences %r, F_prime %r' % d)
        return None
    return O.make(gen, check, name or ('c16.jacobian.' + res))


def inverse_oracle(res):
    """F_prime_inv . F_prime = I and `determinant` = det(F_prime)"""
    def gen(rng):
        return sample_residual_case(res, rng)

    def check(c):
        try:
            r = build_residual(c)
            x = np.array(c['x'], dtype=float)
            J = np.array(r.F_prime(x), dtype=float).copy()
            Ji = np.array(r.F_prime_inv(x), dtype=float).copy()
            det = float(r.determinant(x)) if len(x) == 2 else float(r.determinant(J))
        except Exception:
            return None
        n = len(x)
        # scale rows/columns so that the test is about the algebra, not about units
        cond = np.linalg.cond(J)
        if not math.isfinite(cond) or cond > 1e10:
            return None
        err = np.max(np.abs(Ji.dot(J) - np.eye(n)))
        if err > 1e-13 * cond + 1e-12:
            return dict(site='%s:F_prime_inv' % TE.RESIDUALS[c['res']][0], detail='|F_prime_inv.F_prime - I| = %r (cond %r)' % (err, cond))
        if O.relerr(det, float(np.linalg.det(J))) > 1e-9:
            return dict(site='%s:determinant' % TE.RESIDUALS[c['res']][0], detail='determinant %r, det(F_prime) %r' % (det, float(np.linalg.det(J))))
        return None
    return O.make(gen, check, 'c16.inverse.' + res)


# --------------------------------------------------------------------------
# jump conditions (independent formulation) and Newton
# --------------------------------------------------------------------------

def jump_defects(ic, e0, rho, P, e, D):
    """relative defects of the three Rankine-Hugoniot conditions between the shocked gas at rest (rho, 0, P, e)
    and the incoming gas (rho0 (1 - u0/D)^m, u0, P0, e0), front speed D"""
    m, u0, P0 = ic['symmetry'], ic['velocity'], ic['pressure']
    r1 = ic['density'] * (1.0 - u0 / D) ** m
    ma, mb = rho * (0.0 - D), r1 * (u0 - D)
    pa, pb = P, r1 * (u0 - D) * u0 + P0
    ea, eb = rho * (0.0 - D) * e, r1 * (u0 - D) * (e0 + u0 * u0 / 2.0) + P0 * u0
    return [abs(a - b) / max(abs(a), abs(b), 1e-300) for a, b in ((ma, mb), (pa, pb), (ea, eb))]


def ideal_solution(g, ic):
    """strong-shock Noh state of the ideal gas (P0 = 0): (rho, e, D)"""
    m, u0, r0 = ic['symmetry'], ic['velocity'], ic['density']
    return [r0 * ((g + 1) / (g - 1)) ** (m + 1), u0 * u0 / 2.0, -u0 * (g - 1) / 2.0]


def run_newton(residual, guess, tol, maxit):
    s = NS.newton_solver()
    s.set_function(residual)
    s.tolerance = tol
    s.set_new_max_iteration(maxit)
    s.set_new_initial_guess(list(guess))
    try:
        with np.errstate(all='ignore'):
            out = s.solve(verbose=False)
    except Exception as ex:
        return 'raise:' + type(ex).__name__, None
    return 'converged', out


def reference_solution(eos, ic, g):
    """physical root by continuation in the EOS 'distance' from the ideal gas is not available for a black box:
    use a damped Newton from the ideal-gas state of the same gamma and accept it only if D > 0 and the jump
    conditions hold -- this only produces the *centre* of the guesses, the property is tested on the real solver"""
    r = R.pressure_noh_residual(dict(ic), eos)
    x = np.array(ideal_solution(g, ic), dtype=float)
    try:
        with np.errstate(all='ignore'):
            for _ in range(200):
                step = np.dot(r.F_prime_inv(x), r.F(x).copy())
                lam = 1.0
                while lam > 1e-4 and not ((x - lam * step)[0] > ic['density'] and (x - lam * step)[2] > 0):
                    lam /= 2
                x = x - lam * step
                if np.linalg.norm(lam * step) < 1e-13 * np.linalg.norm(x):
                    break
            if x[2] > 0 and x[0] > ic['density'] and np.linalg.norm(r.F(x)) < 1e-9 * max(1.0, np.linalg.norm(x)):
                return [float(v) for v in x]
    except Exception:
        pass
    return None


# inputs found by the thorough search, replayed first on every run (each is a guess within +-30 % of the physical state)
NEWTON_WITNESSES = {
    'nan': [dict(eos='Ideal', consts={'gamma': 1.4}, cls='Pressure', tol=1e-10,
                 ic={'density': 1.9780886910924178, 'velocity': -1.2531025886844354, 'pressure': 0.0, 'symmetry': 2},
                 pert=[-0.26033326530704287, -0.28904172618462426, 0.06763711759736701])],
    'speed': [dict(eos='NobleAbel', consts={'gamma': 1.168185573201259, 'b': 0.038481883456450296}, cls='Pressure', tol=1e-06,
                   ic={'density': 1.6177145553346586, 'velocity': -1.5443939052706768, 'pressure': 0.0, 'symmetry': 2},
                   pert=[-0.174860956400726, 0.22872917716829183, -0.17866524252137758])],
}


def newton_reasonable(mode='jump'):
    """Newton from a guess within +-30 % of the physical solution: whenever `solve` returns, the returned state
    satisfies the three jump conditions to tolerance (mode 'jump': what `newton_converged` and the
    `*_jump_within_tolerance` theorems give over the reals) / has a positive shock speed (mode 'speed': NOT implied by
    the code -- finding) / is finite (mode 'nan': the exit test `not (residual > tol or error > tol)` is passed by
    NaN -- finding)"""
    first = list(NEWTON_WITNESSES.get(mode, []))

    def gen(rng):
        if first:
            return first.pop(0)          # recorded inputs first, then the random search
        short = rng.choice(['Ideal', 'Ideal', 'Stiff', 'NobleAbel', 'CS'])
        c = sample_consts(short, rng)
        if short == 'CS':
            c['b'] = rng.uniform(0.001, 0.01)
        sym = rng.choice([0, 1, 2])
        ic = dict(density=rng.uniform(0.5, 2.0), velocity=-rng.uniform(0.3, 2.0), pressure=0.0, symmetry=sym)
        if short == 'Stiff':
            c['rho_inf'] = ic['density']       # cold, pressure-free inflow: e0 = 0, P(rho0, e0) = 0
            c['c_s'] = rng.uniform(0.05, 0.5)
            ic['symmetry'] = 0                 # pressure-free convergence needs P(rho, e0) = 0 for all rho
        return dict(eos=short, consts=c, ic=ic, pert=[rng.uniform(-0.3, 0.3) for _ in range(3)],
                    tol=rng.choice([1e-6, 1e-8, 1e-10]), cls=rng.choice(['Pressure', 'Energy']))

    def check(c):
        eos = make_eos(c['eos'], c['consts'])
        ic = c['ic']
        ref = reference_solution(eos, ic, c['consts']['gamma'])
        if ref is None:
            return None
        rho, e, D = [v * (1 + p) for v, p in zip(ref, c['pert'])]
        try:
            if c['cls'] == 'Pressure':
                res, guess = R.pressure_noh_residual(dict(ic), eos), [rho, e, D]
            else:
                res, guess = R.energy_noh_residual(dict(ic), eos), [rho, eos.P(rho, e), D]
        except Exception:
            return None
        tag, out = run_newton(res, guess, c['tol'], 200)
        if tag != 'converged':
            return None          # the property speaks about reported convergence only
        x = [float(v) for v in out['solution']]
        if c['cls'] == 'Pressure':
            rho, e, D = x
            P = eos.P(rho, e)
        else:
            rho, P, D = x
            e = eos.e(rho, P)
        site = 'newton(%s):' % TE.RESIDUALS[c['cls']][0]
        if mode == 'nan':
            if not all(map(math.isfinite, x)):
                return dict(site='newton:reasonable_guess:non_finite',
                            detail='%s with %s%r, %r, tolerance %r: guess %r (within 30%% of the physical state %r): solve() returned %r '
                                   'after %d iterations as a converged solution'
                                   % (TE.RESIDUALS[c['cls']][0], TE.EOS_CLASSES[c['eos']][0], c['consts'], ic, c['tol'], guess, ref, x,
                                      out['number_of_iterations']))
            return None
        if mode == 'speed':
            if all(map(math.isfinite, x)) and not D > 0:
                return dict(site='newton:reasonable_guess:shock_speed',
                            detail='%s with %s%r, %r: guess %r (within 30%% of the physical state %r) converged to %r (D <= 0)'
                                   % (TE.RESIDUALS[c['cls']][0], TE.EOS_CLASSES[c['eos']][0], c['consts'], ic, guess, ref, x))
            return None
        if not all(map(math.isfinite, x)) or not D > 0:
            return None          # NaN "solutions" and the spurious root are reported by the two finding obligations
        dfs = jump_defects(ic, eos.e(ic['density'], ic['pressure']), rho, P, e, D)
        if max(dfs) > 1e3 * c['tol']:
            return dict(site=site + 'jump', detail='returned %r, relative jump defects %r' % (x, dfs))
        return None
    return O.make(gen, check, 'c16.newton.reasonable.' + mode)


def combine(*oracles):
    """one oracle out of several (budget shared equally); a replay goes to the oracle that produced the failure"""
    def run(rng, budget, deep, replay=None):
        if replay is not None:
            nm = replay.get('oracle')
            for o in oracles:
                if o.__name__ == nm:
                    return o(rng, budget, deep, replay=replay)
            return oracles[0](rng, budget, deep, replay=replay)
        tot = dict(evaluations=0, failures=[], samples=[], worst=None, distinct_nontrivial=0)
        for o in oracles:
            r = o(rng, budget / len(oracles), deep)
            tot['evaluations'] += r['evaluations']
            tot['distinct_nontrivial'] += r.get('distinct_nontrivial', 0)
            tot['failures'] += r['failures']
            tot['samples'] += r['samples'][:1]
        return tot
    run.__name__ = '+'.join(o.__name__ for o in oracles)
    return run


def newton_default_guess():
    """FINDING: the default starting guess [rho0 + 1/2, p0 + 1/2, 1/2] of NohBlackBoxEos and its three geometry
    wrappers converges to the spurious root rho -> 0, D -> u0 < 0 of the residual"""
    def gen(rng):
        return dict(cls=rng.choice(['NohBlackBoxEos', 'PlanarNohBlackBox', 'CylindricalNohBlackBox', 'SphericalNohBlackBox']),
                    gamma=rng.choice([5. / 3., 1.4, 1.2, rng.uniform(1.1, 1.9)]))

    def check(c):
        kw = {}
        if c['cls'] != 'NohBlackBoxEos':
            kw['initial_conditions'] = {'density': 1, 'velocity': -1, 'pressure': 0}
        s = getattr(BB, c['cls'])(L.ideal_gas_eos(c['gamma']), **kw)
        try:
            with np.errstate(all='ignore'):
                s.solve_jump_conditions()
        except Exception:
            return None
        D = float(s.shock_speed)
        if not D > 0:
            return dict(site='NohBlackBoxEos:default_guess:shock_speed',
                        detail='%s(ideal_gas_eos(%r)).solve_jump_conditions(): solution %r after %d iterations (shock speed <= 0)'
                               % (c['cls'], c['gamma'], [float(v) for v in s.solution_data['solution']],
                                  s.solution_data['number_of_iterations']))
        return None
    return O.make(gen, check, 'c16.newton.default_guess')


# --------------------------------------------------------------------------
# black-box Noh: returned fields
# --------------------------------------------------------------------------

def _bb_solver(short, c, ic, guess):
    eos = make_eos(short, c)
    s = BB.NohBlackBoxEos(eos, initial_conditions=dict(ic), geometry=ic['symmetry'] + 1, rho0=ic['density'], u0=ic['velocity'])
    s.solver = NS.newton_solver()        # the class shares one solver object between all instances
    s.set_new_solver_initial_guess(list(guess))
    return eos, s


def _bb_case(rng, eoss):
    short = rng.choice(eoss)
    c = sample_consts(short, rng)
    if short == 'CS':
        c['b'] = rng.uniform(0.001, 0.01)
    sym = rng.choice([0, 1, 2])
    ic = dict(density=rng.uniform(0.5, 2.0), velocity=-rng.uniform(0.3, 2.0), pressure=0.0, symmetry=sym)
    if short == 'Stiff':
        c['rho_inf'] = ic['density']
        c['c_s'] = rng.uniform(0.05, 0.5)
        ic['symmetry'] = 0
    return dict(eos=short, consts=c, ic=ic, pert=[rng.uniform(-0.2, 0.2) for _ in range(3)],
                pts=sorted(rng.uniform(0.01, 1.5) for _ in range(8)), t=rng.uniform(0.2, 1.5))


def _bb_run(c):
    eos = make_eos(c['eos'], c['consts'])
    ref = reference_solution(eos, c['ic'], c['consts']['gamma'])
    if ref is None:
        return None
    eos, s = _bb_solver(c['eos'], c['consts'], c['ic'], [v * (1 + p) for v, p in zip(ref, c['pert'])])
    try:
        with np.errstate(all='ignore'):
            sol = s(np.array(c['pts'], dtype=float), c['t'])
    except Exception:
        return None
    return eos, s, sol


def bb_eos():
    """C03: returned pressure = eos.P(returned density, returned sie) on both sides of the shock"""
    def gen(rng):
        return _bb_case(rng, ['Ideal', 'Ideal', 'NobleAbel', 'CS', 'Stiff'])

    def check(c):
        out = _bb_run(c)
        if out is None:
            return None
        eos, s, sol = out
        for i, r in enumerate(c['pts']):
            p, rho, e = float(sol['pressure'][i]), float(sol['density'][i]), float(sol['specific_internal_energy'][i])
            if not all(map(math.isfinite, (p, rho, e))):
                continue
            q = float(eos.P(rho, e))
            if abs(p - q) > 1e-9 * max(abs(p), abs(q), 1e-6 * rho * c['ic']['velocity'] ** 2):
                side = 'shocked' if r < float(s.shock_speed) * c['t'] else 'unshocked'
                return dict(site='NohBlackBoxEos:pressure=eos.P(density,sie):' + side,
                            detail='r=%r pressure=%r eos.P=%r' % (r, p, q))
        return None
    return O.make(gen, check, 'c03.bbnoh.eos')


# recorded witness of the spurious Newton root D -> u0 < 0 reached from a guess within 20 % of the physical state (same
# root cause as C16.newton.positive_speed; known finding C02.bbnoh.fields / NohBlackBoxEos:shock_speed).  Replayed first
# on every run, so the KNOWN-FINDING line does not depend on how many random cases fit in the oracle's time budget.
BB_JUMP_WITNESSES = [
    dict(eos='NobleAbel', consts={'gamma': 1.1025520439506917, 'b': 0.026582815097811296},
         ic={'density': 1.9642613141937337, 'velocity': -1.4572514696622192, 'pressure': 0.0, 'symmetry': 2},
         pert=[0.19015214248986406, -0.17282858750802813, -0.14074135033283489],
         pts=[0.5366385713676298, 0.7589795038048416, 0.8071176069231423, 1.3745288704999916, 1.4451096890294497,
              1.4551261386616325, 1.4645327612472132, 1.4786425521933844],
         t=0.4826654437463532),
]


def bb_jump():
    """C02: the states returned immediately on either side of the coded shock position, with the coded speed,
    satisfy the three Rankine-Hugoniot conditions (guess within +-20 % of the physical solution)"""
    first = [dict(w) for w in BB_JUMP_WITNESSES]

    def gen(rng):
        if first:
            return first.pop(0)
        return _bb_case(rng, ['Ideal', 'Ideal', 'NobleAbel', 'CS', 'Stiff'])

    def check(c):
        out = _bb_run(c)
        if out is None:
            return None
        eos, s, _ = out
        D, t = float(s.shock_speed), c['t']
        if not D > 0:
            return dict(site='NohBlackBoxEos:shock_speed', detail='shock speed %r' % D)
        xs = D * t
        d = 1e-9 * xs
        with np.errstate(all='ignore'):
            sol = s(np.array([xs - d, xs + d]), t)
        a = [float(sol[k][0]) for k in ('density', 'velocity', 'pressure', 'specific_internal_energy')]
        b = [float(sol[k][1]) for k in ('density', 'velocity', 'pressure', 'specific_internal_energy')]

        def flux(q):
            rho, u, p, e = q
            return [rho * (u - D), rho * (u - D) * u + p, rho * (u - D) * (e + u * u / 2) + p * u]
        fa, fb = flux(a), flux(b)
        for nm, x, y in zip(('mass', 'momentum', 'energy'), fa, fb):
            if abs(x - y) > 1e-5 * max(abs(x), abs(y)):
                return dict(site='NohBlackBoxEos:jump:' + nm, detail='inner %r outer %r D=%r fluxes %r %r' % (a, b, D, x, y))
        return None
    return O.make(gen, check, 'c02.bbnoh.jump')


def bb_eos_stiff_curvilinear():
    """FINDING (C03): stiffened gas in cylindrical / spherical symmetry: ahead of the shock the solver returns
    pressure p0 = 0 with density rho0 (1 - u0 t/r)^m and sie = e(rho0, 0), which is not on the EOS surface"""
    def gen(rng):
        c = dict(gamma=rng.choice([5. / 3., rng.uniform(1.2, 2.5)]), c_s=rng.choice([math.sqrt(5. / 3.), rng.uniform(0.5, 2.0)]),
                 rho_inf=1.0)
        ic = dict(density=1.0, velocity=-1.0, pressure=0.0, symmetry=rng.choice([1, 2]))
        return dict(eos='Stiff', consts=c, ic=ic, pts=[rng.uniform(4.0, 8.0) for _ in range(3)], t=rng.uniform(0.3, 1.0))

    def check(c):
        eos, s = _bb_solver('Stiff', c['consts'], c['ic'], [30.0 if c['ic']['symmetry'] == 2 else 8.0, 0.6, 0.4])
        try:
            with np.errstate(all='ignore'):
                sol = s(np.array(c['pts'], dtype=float), c['t'])
        except Exception:
            return None
        if not float(s.shock_speed) > 0:
            return None
        for i, r in enumerate(c['pts']):
            if r < float(s.shock_speed) * c['t']:
                continue
            p, rho, e = float(sol['pressure'][i]), float(sol['density'][i]), float(sol['specific_internal_energy'][i])
            q = float(eos.P(rho, e))
            if abs(p - q) > 1e-9 * max(abs(p), abs(q), 1e-6):
                return dict(site='NohBlackBoxEos(stiffened_gas_eos):pressure=eos.P(density,sie):unshocked',
                            detail='symmetry %d r=%r t=%r: returned pressure %r, density %r, sie %r, eos.P(density, sie) = %r'
                                   % (c['ic']['symmetry'], r, c['t'], p, rho, e, q))
        return None
    return O.make(gen, check, 'c03.bbnoh.stiff_curvilinear')


def bb_initial_state():
    """FINDING (C02): the jump conditions are solved for `initial_conditions`, the unshocked state is assembled from the
    solver attributes rho0/u0/p0 (defaults 1, -1, 0): with initial_conditions alone the returned fields violate
    Rankine-Hugoniot at the returned shock"""
    def gen(rng):
        g = rng.choice([5. / 3., 1.4, rng.uniform(1.2, 2.5)])
        return dict(gamma=g, ic=dict(density=rng.choice([2.0, rng.uniform(1.5, 3.0)]), velocity=-rng.choice([1.0, rng.uniform(0.5, 2.0)]),
                                     pressure=0.0), cls=rng.choice(['PlanarNohBlackBox', 'CylindricalNohBlackBox', 'SphericalNohBlackBox']),
                    t=rng.uniform(0.3, 1.0))

    def check(c):
        sym = {'PlanarNohBlackBox': 0, 'CylindricalNohBlackBox': 1, 'SphericalNohBlackBox': 2}[c['cls']]
        ic = dict(c['ic'])
        s = getattr(BB, c['cls'])(L.ideal_gas_eos(c['gamma']), ic)
        s.solver = NS.newton_solver()
        full = dict(ic)
        full['symmetry'] = sym
        s.set_new_solver_initial_guess(ideal_solution(c['gamma'], full))
        try:
            with np.errstate(all='ignore'):
                s.solve_jump_conditions()
                D, t = float(s.shock_speed), c['t']
                xs = D * t
                sol = s(np.array([xs * (1 - 1e-9), xs * (1 + 1e-9)]), t)
        except Exception:
            return None
        if not D > 0:
            return None
        a = [float(sol[k][0]) for k in ('density', 'velocity', 'pressure', 'specific_internal_energy')]
        b = [float(sol[k][1]) for k in ('density', 'velocity', 'pressure', 'specific_internal_energy')]
        ma, mb = a[0] * (a[1] - D), b[0] * (b[1] - D)
        if abs(ma - mb) > 1e-5 * max(abs(ma), abs(mb)):
            return dict(site='NohBlackBoxEos:jump:initial_conditions_ignored',
                        detail='%s(ideal_gas_eos(%r), %r): behind %r ahead %r D=%r: mass flux %r vs %r'
                               % (c['cls'], c['gamma'], c['ic'], a, b, D, ma, mb))
        return None
    return O.make(gen, check, 'c02.bbnoh.initial_state')


def residual_vs_jump():
    """C02: |F| small  <=>  jump defects small, on random states (all four residual classes, their own EOS)"""
    def gen(rng):
        res = rng.choice(list(TE.RESIDUALS))
        return sample_residual_case(res, rng, ['Ideal', 'Stiff', 'NobleAbel', 'CS'] if 'Pressure' in res else ['Ideal', 'Stiff', 'NobleAbel'])

    def check(c):
        # the theorems give exact identities between F and the flux differences; test them numerically
        try:
            r = build_residual(c)
            eos = make_eos(c['eos'], c['consts'])
            x = [float(v) for v in c['x']]
            F = [float(v) for v in r.F(np.array(x))]
        except Exception:
            return None
        if len(x) == 2:
            return None
        ic = c['ic']
        rho, y, D = x
        P, e = (y, eos.e(rho, y)) if c['res'] == 'Energy' else (eos.P(rho, y), y)
        e0 = eos.e(ic['density'], ic['pressure'])
        u0 = ic['velocity']
        r1 = ic['density'] * (1.0 - u0 / D) ** ic['symmetry']
        dm = rho * (0 - D) - r1 * (u0 - D)
        dp = P - (r1 * (u0 - D) * u0 + ic['pressure'])
        de = rho * (0 - D) * e - (r1 * (u0 - D) * (e0 + u0 * u0 / 2) + ic['pressure'] * u0)
        want = [-D * F[0], F[1] - u0 * D * F[0], -(rho * D) * F[2] - D * (e0 + u0 * u0 / 2) * F[0]]
        for nm, a, b, sc in zip(('mass', 'momentum', 'energy'), (dm, dp, de), want,
                                (abs(rho * D), abs(P) + abs(rho * u0 * D), abs(rho * D) * (abs(e) + abs(e0) + u0 * u0))):
            if abs(a - b) > 1e-9 * max(sc, 1e-300):
                return dict(site='%s:F<->jump:%s' % (TE.RESIDUALS[c['res']][0], nm), detail='flux difference %r, from F %r' % (a, b))
        return None
    return O.make(gen, check, 'c02.bbnoh.residual')


# --------------------------------------------------------------------------
# ties: Float twins of the traced function models vs the real methods
# --------------------------------------------------------------------------
ARITH = ('ZeroDivisionError', 'OverflowError', 'FloatingPointError')


def _close(a, b, rtol, atol=0.0):
    fa, fb = math.isfinite(a), math.isfinite(b)
    if not fa or not fb:
        return (not fa) and (not fb)
    return abs(a - b) <= rtol * max(abs(a), abs(b)) + atol


class Twin(object):
    """one generated function model to be compared with the real code: `gen(rng, deep)` -> cases (dicts giving a
    value for every symbol of the model), `real(case)` -> list of values (may raise; None = the method fell
    through without a return value)"""

    def __init__(self, name, gen, real, rtol=1e-12, atol=lambda c: 0.0, hide=()):
        self.name, self.gen, self.real, self.rtol, self.atol, self.hide = name, gen, real, rtol, atol, hide


def run_twins(twins):
    """tie function running all the given twins in ONE Lean process"""
    def tie(rng, deep):
        man = manifest()
        jobs = []
        lines = []
        for tw in twins:
            ent = man[tw.name]
            order = ent['params'] + ent['pvars'] + ([ent['tvar']] if ent['tvar'] else [])
            cases = tw.gen(rng, deep)
            ls = [tw.name + ' ' + ' '.join(lean_io.bits(c[a]) for a in order) for c in cases]
            jobs.append((tw, ent, cases, len(lines), len(ls)))
            lines += ls
        outs = lean_io.run_lines(lines) if lines else []
        tot = dict(evaluations=0, distinct_nontrivial=0, mismatches=[], samples=[])
        for tw, ent, cases, lo, n in jobs:
            st = judge(tw, ent, cases, lines[lo:lo + n], outs[lo:lo + n])
            tot['evaluations'] += st['evaluations']
            tot['distinct_nontrivial'] += st['distinct_nontrivial']
            tot['mismatches'] += st['mismatches']
            if len(tot['samples']) < 2:
                tot['samples'] += st['samples'][:1]
        return tot
    return tie


def judge(tw, ent, cases, lines, outs):
    name = tw.name
    st = dict(evaluations=0, distinct_nontrivial=0, mismatches=[], samples=[])
    seen = set()
    show = lambda c: {k: v for k, v in c.items() if k not in tw.hide}
    for c, line, out in zip(cases, lines, outs):
        tag, mv = lean_io.parse_result(out)
        st['evaluations'] += 1
        try:
            with np.errstate(all='ignore'):
                rv = [None if v is None else float(v) for v in tw.real(c)]
            rtag = 'ok'
        except Exception as ex:
            rtag, rv = 'raise:' + type(ex).__name__, []
        bad = None
        if tag.startswith('ok'):
            leaf = [l for l in ent['leaves'] if l['idx'] == int(tag.split(':')[1])][0]
            if rtag != 'ok':
                if not (rtag.split(':')[1] in ARITH and any(not math.isfinite(v) for v in mv)):
                    bad = 'model %s, code %s' % (tag, rtag)
            elif len(rv) != len(mv):
                bad = 'field count: code %d model %d' % (len(rv), len(mv))
            else:
                a0 = tw.atol(c)
                for nm, a, b in zip(ent['fields'], rv, mv):
                    if a is None or nm in leaf.get('strs', {}):
                        # the traced path ended without a numeric return value (Python None)
                        if not (a is None and nm in leaf.get('strs', {})):
                            bad = 'field %s: code %r, model leaf %d records %r' % (nm, a, leaf['idx'], leaf.get('strs'))
                            break
                    elif not _close(a, b, tw.rtol, a0):
                        bad = 'field %s: code %r model %r' % (nm, a, b)
                        break
                if line not in seen and all(v is not None and math.isfinite(v) for v in rv):
                    seen.add(line)
        elif tag.startswith('raise'):
            if rtag != 'raise:' + tag.split(':')[2]:
                bad = 'model %s, code %s' % (tag, rtag)
        elif tag.startswith('nan'):
            if rtag == 'ok' and all(v is not None and math.isfinite(v) for v in rv):
                bad = 'model nan, code finite'
        else:
            bad = 'driver answered %r' % tag
        if bad:
            st['mismatches'].append(dict(model=name, case=show(c), why=bad))
        if len(st['samples']) < 1:
            st['samples'].append(dict(model=name, case=show(c), outcome=tag))
    st['distinct_nontrivial'] = len(seen)
    return st


def merge(*ties):
    def tie(rng, deep):
        tot = dict(evaluations=0, distinct_nontrivial=0, mismatches=[], samples=[])
        for f in ties:
            st = f(rng, deep)
            tot['evaluations'] += st['evaluations']
            tot['distinct_nontrivial'] += st['distinct_nontrivial']
            tot['mismatches'] += st['mismatches']
            tot['samples'] += st['samples'][:1]
        return tot
    return tie


def eos_twin(model):
    """Float twin of one traced EOS method vs the real method (documented argument order, guards included)"""
    info = TE.EOS_MODELS[model]
    short = info['cls']

    def gen(rng, deep):
        cases = []
        for i in range(240 if deep else 40):
            c = sample_consts(short, rng)
            rho, P, e = sample_state(short, c, rng)
            if i % 8 == 0:
                rho = 0.0                                # the zero-density guard
            elif i % 8 == 1 and short == 'CS':
                rho = 1.0 / c['b']                       # eta = 1 guard
            elif i % 8 == 1 and short == 'NobleAbel' and c['b'] > 0:
                rho = 0.5 / c['b']
                rho = rho if (1 - c['b'] * rho) != 0 else rho
            elif i % 8 == 1 and short == 'Ideal':
                c['gamma'] = 1.0                         # the constructor's assertion
            elif i % 8 == 2 and short == 'Stein':
                rho = c['reference_density']             # the branch point
            elif i % 8 == 3 and short == 'Stein':
                rho = -rho                               # "Invalid value for gruneisen"
            elif i % 8 == 2 and short == 'CS':
                P = 0.0                                  # de_drho(P, rho) guards its first argument
            d = dict(c)
            d.update(rho=rho, pres=P, sie=e)
            if info['args'] == ['eta']:
                d['eta'] = rng.choice([1.0, rng.uniform(-0.5, 0.9)])
            cases.append(d)
        return cases

    def real(c):
        eos = make_eos(short, c)
        return [getattr(eos, m)(*[c[a] for a in info['args']]) for m in info['methods']]
    return Twin(model, gen, real)


def aluminium_twin():
    def real(c):
        a = L.aluminum_eos()
        # the instance inherits every method from steinberg / generic_mie_gruneisen: nothing is overridden
        for m in TE.E_METHODS + TE.P_METHODS + sum(TE.HELPERS['Stein'].values(), []):
            own = [k for k in type(a).__mro__[:1] if m in vars(k)]
            if own:
                raise AssertionError('aluminum_eos overrides ' + m)
        return [getattr(a, n) for n in TE.EOS_CLASSES['Stein'][1]]
    return Twin('EosAluminium', lambda rng, deep: [dict()], real)


def eos_ties(short, which=None):
    tw = [eos_twin(m) for m, i in TE.EOS_MODELS.items() if i['cls'] == short and (which is None or m.split('_', 1)[1] in which)]
    if short == 'Stein' and which is None:
        tw.append(aluminium_twin())
    return run_twins(tw)


def residual_twin(model):
    """Float twin of a traced residual method over the abstract EOS, fed with the values a REAL EOS object returns,
    vs the real residual class constructed with that EOS object"""
    info = TE.RES_MODELS[model]
    res, what, sym, unk = info['res'], info['what'], info['sym'], info['unknowns']
    n = len(unk)

    def gen(rng, deep):
        cases = []
        for i in range(160 if deep else 24):
            if info['eos'] == 'ideal':
                c = sample_residual_case(res, rng, ['Ideal'])
            else:
                c = sample_residual_case(res, rng, ['Ideal', 'Stiff', 'NobleAbel', 'CS', 'SteinExp', 'Stein']
                                         if 'Pressure' in res else ['Ideal', 'Stiff', 'NobleAbel', 'SteinExp', 'Stein'])
            if sym is not None:
                c['ic']['symmetry'] = sym
                if sym > 0:
                    c['ic']['pressure'] = 0.0
            if i % 8 == 0:
                c['x'][0] = 0.0                      # ZeroDensityError
            elif i % 8 == 1:
                c['ic']['velocity'] = abs(c['ic']['velocity']) * rng.choice([0.0, 1.0])     # rejected by the constructor
            elif i % 8 == 2 and n == 3 and sym != 0:
                c['ic']['pressure'] = 0.3            # pressure with curvilinear symmetry: rejected
                if info['eos'] == 'ideal':
                    c['ic']['symmetry'] = rng.choice([1, 2])
            elif i % 8 == 3 and info['eos'] == 'ideal':
                c['ic']['symmetry'] = rng.choice([3, -1, 0.5])
            eos = make_eos(c['eos'], c['consts'])
            d = dict(P_0=c['ic']['pressure'], rho_0=c['ic']['density'], u_0=c['ic']['velocity'], symmetry=c['ic']['symmetry'],
                     case=c)
            for k, u in enumerate(unk):
                d[u] = c['x'][k]
            if info['eos'] == 'ideal':
                d['gamma'] = c['consts']['gamma']
            else:
                rho, y = c['x'][0], c['x'][1]
                with np.errstate(all='ignore'):
                    for sname, meth, args in (('eos_e', 'e', (rho, y)), ('eos_de_drho', 'de_drho', (rho, y)), ('eos_de_dP', 'de_dP', (rho, y)),
                                              ('eos_P', 'P', (rho, y)), ('eos_dP_drho', 'dP_drho', (rho, y)), ('eos_dP_de', 'dP_de', (rho, y)),
                                              ('eos_e_init', 'e', (c['ic']['density'], c['ic']['pressure']))):
                        try:
                            d[sname] = float(getattr(eos, meth)(*args))
                        except Exception:
                            d[sname] = float('nan')
            cases.append(d)
        return cases

    def real(d):
        c = d['case']
        r = build_residual(c)
        x = np.array(c['x'], dtype=float)
        if what == 'determinant' and n == 3:
            return list(np.ravel(r.determinant(r.F_prime(x))))
        return list(np.ravel(np.array(getattr(r, what)(x), dtype=float)))
    # numpy's LU inverse/determinant vs the adjugate formula of the model: compare relative to the matrix scale
    loose = what in ('F_prime_inv', 'determinant') and n == 3

    def atol(d):
        if not loose:
            return 0.0
        try:
            c = d['case']
            r = build_residual(c)
            x = np.array(c['x'], dtype=float)
            J = np.array(r.F_prime(x), dtype=float)
            cond = np.linalg.cond(J)
            if what == 'determinant':
                return 1e-12 * cond * abs(np.linalg.det(J))
            return 1e-12 * cond * np.max(np.abs(np.linalg.inv(J)))
        except Exception:
            return 0.0
    return Twin(model, gen, real, rtol=(1e-9 if loose else 1e-12), atol=atol, hide=('case',))


def residual_ties(res, whats=('F', 'F_prime', 'F_prime_inv', 'determinant'), eos=('abs', 'ideal')):
    return run_twins([residual_twin(m) for m, i in TE.RES_MODELS.items()
                      if i['res'] == res and i['what'] in whats and i['eos'] in eos])


def bb_tie(model, short):
    """Float twin of NohBlackBoxEos._run (Newton result as free symbols) vs the public call of the real solver,
    the twin being fed the solution the real Newton iteration returned"""
    def gen(rng, deep):
        cases = []
        for i in range(80 if deep else 15):
            c = _bb_case(rng, [short])
            out = _bb_run(c)
            if out is None:
                continue
            eos, s, sol = out
            x = [float(v) for v in s.solution_data['solution']]
            for k, r in enumerate(c['pts'][:4]):
                d = dict(c['consts'])
                d.update(p0=float(s.p0), rho0=float(s.rho0), u0=float(s.u0), symmetry=float(s.symmetry), x0=x[0], x1=x[1], x2=x[2],
                         r=r, t=c['t'], want=[float(sol[n][k]) for n in sol.dtype.names])
                cases.append(d)
        return cases
    return run_twins([Twin(model, gen, lambda d: d['want'], hide=('want',))])


class _Recording(object):
    """the real residual object, recording how close to zero density / to non-finite values the iteration came"""

    def __init__(self, res):
        self.res, self.min_rho, self.nonfinite = res, float('inf'), False

    def _see(self, x):
        try:
            v = [float(a) for a in x]
            self.min_rho = min(self.min_rho, abs(v[0]))
            self.nonfinite = self.nonfinite or not all(map(math.isfinite, v))
        except Exception:
            pass

    def F(self, x, *a, **k):
        self._see(x)
        return self.res.F(x, *a, **k)

    def F_prime_inv(self, x, *a, **k):
        self._see(x)
        return self.res.F_prime_inv(x, *a, **k)


def newton_tie(rng, deep):
    """hand model EPV.Model.Newton (ideal-gas pressure residual) vs newton_solver.solve on the real classes:
    outcome (converged / IterationError / exception class), iteration count, solution"""
    cases = []
    for i in range(300 if deep else 60):
        g = rng.choice([5. / 3., 1.4, rng.uniform(1.1, 3.0)])
        m = rng.choice([0, 1, 2])
        ic = dict(density=rng.uniform(0.5, 2.0), velocity=-rng.uniform(0.3, 2.0), symmetry=m,
                  pressure=(rng.uniform(0.01, 0.2) if (m == 0 and rng.random() < 0.3) else 0.0))
        ex = ideal_solution(g, ic)
        k = i % 6
        if k in (0, 1, 2):
            guess = [v * (1 + rng.uniform(-0.3, 0.3)) for v in ex]
        elif k == 3:
            guess = [ic['density'] + 0.5, ic['pressure'] + 0.5, 0.5]          # the solver's default recipe
        elif k == 4:
            guess = [v * rng.uniform(0.2, 3.0) for v in ex]
        else:
            guess = [0.0, ex[1], ex[2]] if rng.random() < 0.5 else [ex[0] * 50, ex[1] * 50, ex[2] / 50]
        cases.append(dict(gamma=g, ic=ic, guess=guess, tol=rng.choice([1e-6, 1e-8, 1e-10]), maxit=rng.choice([100, 100, 25, 6])))
    lines = []
    for c in cases:
        ic = c['ic']
        lines.append('Newton %s %s %s %s %d %s %d %s' % (
            lean_io.bits(c['gamma']), lean_io.bits(ic['density']), lean_io.bits(ic['velocity']), lean_io.bits(ic['pressure']),
            ic['symmetry'], lean_io.bits(c['tol']), c['maxit'], ' '.join(lean_io.bits(v) for v in c['guess'])))
    outs = lean_io.run_lines(lines)
    st = dict(evaluations=0, distinct_nontrivial=0, mismatches=[], samples=[], outcome_hist={})
    for c, out in zip(cases, outs):
        st['evaluations'] += 1
        res = _Recording(R.pressure_noh_residual(dict(c['ic']), L.ideal_gas_eos(c['gamma'])))
        tag, rv = run_newton(res, c['guess'], c['tol'], c['maxit'])
        ws = out.split()
        mtag = ws[0] if ws[0] != 'converged' else 'converged'
        st['outcome_hist'][tag] = st['outcome_hist'].get(tag, 0) + 1
        bad = None
        # next to the spurious root (rho -> 0, D -> u0) the density iterates cancel / underflow: whether an iterate is
        # exactly 0.0 (ZeroDensityError), NaN, or how many more updates are made then depends on the last bit of the
        # 3x3 inverse (numpy LU vs adjugate).  Such trajectories are compared by outcome class only, and loosely.
        chaotic = res.min_rho < 1e-8 * c['ic']['density'] or res.nonfinite
        if tag != mtag:
            if not (chaotic and {tag, mtag} <= {'converged', 'raise:ZeroDensityError', 'raise:IterationError', 'raise:ZeroDeterminantError'}):
                bad = 'model %s, code %s' % (out[:60], tag)
        elif tag == 'converged' and chaotic:
            mD, rD = lean_io.unbits(ws[4]), float(rv['solution'][2])
            if math.isfinite(mD) and math.isfinite(rD) and not _close(mD, rD, 1e-4):
                bad = 'shock speed: code %r model %r' % (rD, mD)
        elif tag == 'converged':
            it = int(ws[1])
            mx = [lean_io.unbits(w) for w in ws[2:5]]
            mres, merr = lean_io.unbits(ws[5]), lean_io.unbits(ws[6])
            rx = [float(v) for v in rv['solution']]
            scale = max(max(abs(v) for v in rx), 1.0)
            if it != rv['number_of_iterations']:
                # only acceptable when an exit test was decided within rounding of the tolerance
                near = any(abs(v - c['tol']) <= 1e-3 * c['tol'] for v in (float(rv['residual_achieved']), float(rv['error_achieved']), mres, merr))
                if not near:
                    bad = 'iterations: model %d, code %d' % (it, rv['number_of_iterations'])
            if bad is None:
                for a, b in zip(rx, mx):
                    if not _close(a, b, 1e-7, 1e-9 * scale):
                        bad = 'solution: code %r model %r' % (rx, mx)
                        break
            if bad is None and all(math.isfinite(v) for v in rx):
                st['distinct_nontrivial'] += 1
        if bad:
            st['mismatches'].append(dict(model='Newton', case=c, why=bad))
        if len(st['samples']) < 1:
            st['samples'].append(dict(model='Newton', case=c, outcome=out[:40]))
    return st
