"""Sedov (exactpack/solvers/sedov/sedov.py): ties of the hand model and of the generated
function models with the real code, and numeric oracles on the real public call.

Ties (correspondence; tests of the models, not of the property):
  tie_assemble    hand model EPV.Model.Sedov.assemble vs `Sedov(**p)(r, t)`: alpha, and per user
                  point the two bracketing grid nodes with the (f, g, h) the real run obtained
                  there, are captured by wrapping `physical` and `interp1d` for that one call.
  tie_models      Float twins of the generated function models vs the real methods on the same
                  inputs (SedovShock, SedovFuncs*, SedovSingular, SedovVacuum, SedovPhysical,
                  SedovInit, SedovRunSing/Std/Vac).

Oracles (the property evaluated on the real public call):
  energy, mass    quadrature of Sedov(r, t) over 0 < r < r2 on the solver's own grid nodes
  ambient         state ahead of the shock
  similarity      fields at equal r/r2(t) at two times
  rh              Rankine-Hugoniot at the shock with D = d r2/dt by central differences of the
                  reported shock position (step halving)
  eos             p = (gamma-1) rho e, c^2 = gamma p / rho per returned point
  units           scaled / unscaled calls
  accepts, reject constructor catalogue (C20)
A Sedov call costs 0.1-0.4 s: budgets are small."""
import json
import math
import warnings

import numpy as np

from . import lean_io
from . import oracle as O
from py2lean.trace import load

CLS = 'exactpack.solvers.sedov.sedov:Sedov'
PNAMES = ('geometry', 'gamma', 'rho0', 'omega', 'eblast')


def _mod():
    return load(CLS)[0]


def _cls():
    return load(CLS)[1]


# --------------------------------------------------------------------------
# parameter sampling
# --------------------------------------------------------------------------

def omega_singular(k, gamma):
    """the density exponent at which v2 = vstar (singular solution type)"""
    return (k * (3. - gamma) + 2. * (gamma - 1.)) / (gamma + 1.)


def sample(rng, kind=None):
    """admissible parameter set; kind in (None, 'standard', 'singular', 'vacuum')"""
    for _ in range(1000):
        k = rng.choice([1, 2, 3])
        gamma = rng.uniform(1.15, 2.6)
        want = kind or rng.choice(['standard', 'standard', 'vacuum', 'singular'])
        ws = omega_singular(k, gamma)
        if want == 'singular':
            if k == 1:
                continue
            omega = ws + rng.choice([-1, 1]) * rng.uniform(1e-7, 2e-6)
        elif want == 'vacuum':
            if k == 1:
                continue
            omega = rng.uniform(ws + 0.02 * (k - ws), ws + 0.8 * (k - ws))
        else:
            omega = 0.0 if rng.random() < 0.4 else rng.uniform(0.0, 0.93 * min(ws, k))
        if not (0 <= omega < k):
            continue
        # stay clear of the special singularities omega2, omega3 (covered by explicit cases)
        if abs(2 * (gamma - 1) + k - gamma * omega) < 0.02 or abs(k * (2 - gamma) - omega) < 0.02:
            continue
        p = dict(geometry=k, gamma=gamma, rho0=rng.uniform(0.3, 4.0), omega=omega, eblast=rng.uniform(0.1, 3.0))
        return p
    raise RuntimeError('sampler failed')


SPECIAL_CASES = [
    dict(geometry=3, gamma=1.4, rho0=1.0, omega=1.8, eblast=0.851072),                    # omega3, standard
    dict(geometry=3, gamma=1.4, rho0=1.0, omega=(2 * 0.4 + 3) / 1.4, eblast=0.851072),    # omega2, vacuum
    dict(geometry=2, gamma=1.4, rho0=1.0, omega=1.2, eblast=0.311357),                    # omega3, standard
]


def construct(p):
    with warnings.catch_warnings():
        warnings.simplefilter('ignore')
        return _cls()(**p)


def r2_of(s, t):
    return (s.eblast / (s.alpha * s.rho0)) ** (1.0 / s.xg2) * t ** (2.0 / s.xg2)


def Ak(k):
    return 1.0 if k == 1 else 2.0 * (k - 1) * math.pi


# --------------------------------------------------------------------------
# tie: the hand model of the assembly in _run
# --------------------------------------------------------------------------

def traced_call(s, r, t):
    """run the real call, capturing the (f, g, h) handed to `physical` in call order and the
    node arrays handed to `interp1d`"""
    M = _mod()
    calls = []
    nodes = []
    real_phys = s.physical

    def phys(f, g, h):
        calls.append((float(f), float(g), float(h)))
        return real_phys(f, g, h)

    real_interp = M.interp1d

    def interp(x, y, **kw):
        nodes.append((np.array(x, dtype=float), np.array(y, dtype=float)))
        return real_interp(x, y, **kw)
    s.physical = phys
    M.interp1d = interp
    try:
        with warnings.catch_warnings():
            warnings.simplefilter('ignore')
            with np.errstate(all='ignore'):
                sol = s(np.asarray(r, dtype=float), t)
    finally:
        M.interp1d = real_interp
        del s.physical
    return sol, calls, nodes


def node_atoms(s, calls, xs):
    """(f, g, h) per node of the final (descending, origin appended) node array xs"""
    n_out = int(np.sum(xs[:-1] > s.r2))
    out = []
    for m in range(len(xs) - 1):
        if xs[m] > s.r2:
            out.append((0.0, 0.0, 0.0))
        else:
            out.append(calls[m - n_out])
    out.append(calls[-1])          # the origin node
    return out


def assemble_lines(p, t, pts, rng=None):
    s = construct(p)
    sol, calls, nodes = traced_call(s, pts, t)
    xs = nodes[0][0]
    atoms = node_atoms(s, calls, xs)
    asc = xs[::-1]
    aat = atoms[::-1]
    lines, exp = [], []
    for i, x in enumerate(pts):
        j = int(np.searchsorted(asc, x, side='right')) - 1
        j = min(max(j, 0), len(asc) - 2)
        a = [p['geometry'], p['gamma'], p['rho0'], p['omega'], p['eblast'], s.alpha, t, x,
             asc[j]] + list(aat[j]) + [asc[j + 1]] + list(aat[j + 1])
        lines.append('SedovAssemble ' + ' '.join(lean_io.bits(v) for v in a))
        exp.append([s.r2, s.rho2, s.u2, s.p2] + [float(sol[n][i]) for n in
                   ('density', 'pressure', 'specific_internal_energy', 'velocity', 'sound_speed')])
    return lines, exp, s


def _close(a, b, rtol=1e-11, atol=0.0):
    fa, fb = math.isfinite(a), math.isfinite(b)
    if not fa or not fb:
        return (not fa) and (not fb)
    return abs(a - b) <= rtol * max(abs(a), abs(b)) + atol


def tie_assemble(rng, deep):
    ncase = 24 if deep else 7
    cases = []
    kinds = ['standard', 'vacuum', 'singular']
    for i in range(ncase):
        p = sample(rng, kinds[i % 3]) if i >= len(SPECIAL_CASES) or not deep else SPECIAL_CASES[i]
        t = rng.uniform(0.2, 2.0)
        s0 = construct(p)
        r2 = r2_of(s0, t)
        rmax = r2 * rng.choice([rng.uniform(0.4, 0.98), rng.uniform(1.05, 1.8), 1.0])
        pts = sorted([rng.uniform(0.0, rmax) for _ in range(6)] + [rmax, r2 * (1 - 1e-4) if rmax > r2 else rmax * 0.5])
        cases.append((p, t, pts))
    lines, exps, meta = [], [], []
    rmax_of = {(id(p), t): max(pts) for p, t, pts in cases}
    for p, t, pts in cases:
        l, e, s = assemble_lines(p, t, pts)
        lines += l
        exps += e
        meta += [(p, t, x, s.solution_type) for x in pts]
    outs = lean_io.run_lines(lines)
    st = dict(evaluations=0, distinct_nontrivial=0, mismatches=[], samples=[], hist={})
    names = ['r2', 'rho2', 'u2', 'p2', 'density', 'pressure', 'specific_internal_energy', 'velocity', 'sound_speed']
    for line, e, (p, t, x, kind) in zip(outs, exps, meta):
        tag, vals = lean_io.parse_result(line)
        st['evaluations'] += 1
        st['hist'][kind] = st['hist'].get(kind, 0) + 1
        bad = None
        if tag != 'ok' or len(vals) != len(e):
            bad = 'model said %r' % line[:60]
        else:
            for n, a, b in zip(names, e, vals):
                if not _close(a, b, 2e-11, 1e-300):
                    bad = '%s: code %r model %r' % (n, a, b)
                    break
        if bad and tag == 'ok' and len(vals) == len(e) and vals[0] != e[0] and _close(e[0], vals[0], 1e-14) \
                and min(abs(x - e[0]), abs(rmax_of[id(p), t] - e[0])) <= 1e-13 * abs(e[0]):
            # robust-semi: the request puts the point / the last grid node EXACTLY on the shock (probe of `<=`), and on
            # this tree the code's r2 and the model's r2 differ in the last bits (a reordering of floating-point
            # operations in the source: harmless).  Which side of `rwant <= r2` such a node falls on is then decided by
            # rounding, not by the assembly logic: not a mismatch.  (When the two r2 are bit-equal — the pinned tree —
            # the comparison stays strict.)
            st['hist']['shock-node-within-rounding'] = st['hist'].get('shock-node-within-rounding', 0) + 1
        elif bad:
            st['mismatches'].append(dict(model='SedovAssemble', params=p, t=t, point=x, why=bad))
        elif all(math.isfinite(v) for v in e):
            st['distinct_nontrivial'] += 1
        if len(st['samples']) < 1:
            st['samples'].append(dict(model='SedovAssemble', params=p, t=t, point=x, outcome=tag))
    # the NaN guard
    out = lean_io.run_lines(['SedovAssemble ' + ' '.join(lean_io.bits(v) for v in [3, 1.4, 1, 0, 1, 1, 0.0, .5, 0, 0, 0, 0, 1, 1, 1, 1])])
    sol = construct({})(np.array([0.5]), 0.0)
    st['evaluations'] += 1
    if not (out[0] == 'nan' and math.isnan(float(sol['density'][0]))):
        st['mismatches'].append(dict(model='SedovAssemble', why='t = 0: model %r code %r' % (out[0], float(sol['density'][0]))))
    return st


# --------------------------------------------------------------------------
# ties: Float twins of the generated function models vs the real methods
# --------------------------------------------------------------------------

def _manifest():
    import os
    return json.load(open(os.path.join(lean_io.LEAN_DIR, 'EPV', 'Gen', 'gen_manifest.json')))


def _twin(name, entry, vals):
    order = entry['params'] + entry['pvars'] + ([entry['tvar']] if entry['tvar'] else [])
    return name + ' ' + ' '.join(lean_io.bits(float(vals[a])) for a in order)


def _compare(st, name, lines, expected, info, rtol=1e-11):
    """expected[i] = ('ok', [values]) | ('nan',) | ('raise', ExcName)"""
    if not lines:
        return
    outs = lean_io.run_lines(lines)
    for line, e, inf in zip(outs, expected, info):
        tag, vals = lean_io.parse_result(line)
        st['evaluations'] += 1
        kind = tag.split(':')[0]
        bad = None
        if e[0] == 'ok':
            if kind != 'ok':
                bad = 'code ok, model %s' % tag
            elif len(vals) != len(e[1]):
                bad = 'arity: model %d code %d' % (len(vals), len(e[1]))
            else:
                for i, (a, b) in enumerate(zip(e[1], vals)):
                    if a is not None and not _close(a, b, rtol, 1e-300):
                        bad = 'output %d: code %r model %r' % (i, a, b)
                        break
                if not bad and all(v is None or math.isfinite(v) for v in e[1]):
                    st['distinct_nontrivial'] += 1
        elif e[0] == 'nan':
            if kind != 'nan':
                bad = 'code NaN, model %s' % tag
        else:
            # Python raises ZeroDivisionError where IEEE arithmetic (the twin) gives inf/nan
            arith = e[1] in ('ZeroDivisionError', 'OverflowError')
            if kind == 'raise':
                if tag.split(':')[2] != e[1]:
                    bad = 'code raises %s, model %s' % (e[1], tag)
            elif not (arith and kind == 'ok' and any(not math.isfinite(v) for v in vals)):
                bad = 'code raises %s, model %s' % (e[1], tag)
        st['leaf_hist'].setdefault(name, {})
        st['leaf_hist'][name][tag.split(' ')[0]] = st['leaf_hist'][name].get(tag.split(' ')[0], 0) + 1
        if bad:
            st['mismatches'].append(dict(model=name, input=inf, why=bad))
        if len(st['samples']) < 1:
            st['samples'].append(dict(model=name, input=inf, outcome=tag))


from py2lean.targets.t_sedov import SEDOV_STUB_ATTRS as STUB_ATTRS, SEDOV_INIT_DERIVED as INIT_DERIVED


def _tie_shock(st, man, rng, n):
    e = man['SedovShock']
    lines, exp, info = [], [], []
    for i in range(n):
        p = sample(rng)
        s = construct(p)
        t = rng.uniform(0.05, 3.0) if i else 0.0
        with warnings.catch_warnings():
            warnings.simplefilter('ignore')
            sol = s(np.array([0.3]), t)
        vals = dict(p, alpha=s.alpha, t=t)
        lines.append(_twin('SedovShock', e, vals))
        exp.append(('ok', [getattr(s, k) for k in e['fields']]) if t > 0 else ('nan',))
        info.append(dict(params=p, t=t))
    _compare(st, 'SedovShock', lines, exp, info)


def _tie_funcs(st, man, rng, n):
    special = {'SedovFuncs': 'none', 'SedovFuncsO2': 'omega2', 'SedovFuncsO3': 'omega3'}
    for name, sp in special.items():
        e = man[name]
        lines, exp, info = [], [], []
        for i in range(n):
            if sp == 'none':
                p = sample(rng, rng.choice(['standard', 'vacuum']))
            else:
                k = rng.choice([2, 3])
                gamma = rng.uniform(1.2, 1.9)
                omega = (2 * (gamma - 1) + k) / gamma if sp == 'omega2' else k * (2 - gamma)
                if not 0 <= omega < k:
                    continue
                p = dict(geometry=k, gamma=gamma, rho0=1.0, omega=omega, eblast=1.0)
            s = construct(p)
            if s.special_singularity != sp or s.solution_type == 'singular':
                continue
            lo, hi = (s.v0, s.v2) if s.solution_type == 'standard' else (s.v2, s.vv)
            # interior points, the two ends (where the guards max(1e-30, .), max(., 1e-12) act)
            v = rng.choice([rng.uniform(lo, hi), rng.uniform(lo, hi), lo, hi, lo * (1 - 1e-3)])
            with np.errstate(all='ignore'):
                out = list(s.sedov_funcs_standard(v)) + [s.efun01(v), s.efun02(v)]
            vals = {k_: getattr(s, k_) for k_ in STUB_ATTRS}
            vals['v'] = v
            lines.append(_twin(name, e, vals))
            exp.append(('ok', [float(x) for x in out]))
            info.append(dict(params=p, v=v))
        _compare(st, name, lines, exp, info, rtol=1e-9)


def _tie_small(st, man, rng, n):
    s = construct({})
    e = man['SedovSingular']
    lines, exp, info = [], [], []
    for i in range(n):
        k = rng.choice([1, 2, 3])
        s.geometry = k
        s.r2 = rng.uniform(0.2, 2.0)
        rw = rng.uniform(0.01, 1.0) * s.r2
        lines.append(_twin('SedovSingular', e, dict(geometry=k, r2=s.r2, rwant=rw)))
        exp.append(('ok', [float(x) for x in s.sedov_funcs_singular(rw)]))
        info.append(dict(geometry=k, r2=s.r2, rwant=rw))
    _compare(st, 'SedovSingular', lines, exp, info)
    e = man['SedovVacuum']
    _compare(st, 'SedovVacuum', [_twin('SedovVacuum', e, {})], [('ok', [float(x) for x in s.sedov_funcs_vacuum()])], [{}])
    e = man['SedovPhysical']
    lines, exp, info = [], [], []
    for i in range(n):
        s = construct(dict(gamma=rng.uniform(1.1, 3.0)))
        s.rho2, s.u2, s.p2 = rng.uniform(0.1, 9), rng.uniform(0.1, 3), rng.uniform(0.1, 3)
        f, g, h = rng.uniform(0, 1), rng.choice([0.0, rng.uniform(0, 4)]), rng.uniform(0, 1)
        vals = dict(gamma=s.gamma, gamm1=s.gamm1, rho2=s.rho2, u2=s.u2, p2=s.p2, f=f, g=g, h=h)
        lines.append(_twin('SedovPhysical', e, vals))
        exp.append(('ok', [float(x) for x in s.physical(f, g, h)]))
        info.append(vals)
    _compare(st, 'SedovPhysical', lines, exp, info)



def init_stream(rng, n):
    """admissible, boundary and malformed constructor arguments"""
    out = [dict(), dict(gamma=1.0), dict(rho0=0.0), dict(eblast=0.0), dict(gamma=0.99), dict(rho0=-1.0),
           dict(eblast=-0.1), dict(omega=-0.01), dict(omega=3.0), dict(geometry=2, omega=2.0), dict(geometry=4),
           dict(geometry=0), dict(geometry=1, omega=0.999), dict(geometry=3, gamma=1.4, omega=7. / 3.),
           dict(geometry=2.0), dict(geometry=1.5)] + SPECIAL_CASES
    for i in range(n):
        p = sample(rng)
        if rng.random() < 0.3:
            k = rng.choice(list(PNAMES))
            p[k] = {'geometry': rng.choice([0, 4, 2.5]), 'gamma': rng.uniform(0.5, 1.0), 'rho0': -rng.random(),
                    'omega': rng.choice([-rng.random(), p['geometry'] + rng.random()]), 'eblast': -rng.random()}[k]
        out.append(p)
    return out


def _tie_init(st, man, rng, n):
    e = man['SedovInit']
    C = _cls()
    lines, exp, info = [], [], []
    for p in init_stream(rng, n):
        full = {k: p.get(k, getattr(C, k)) for k in PNAMES}
        try:
            with np.errstate(all='ignore'):
                s = construct(p)
            ex = ('ok', [float(getattr(s, k)) for k in INIT_DERIVED])
            q1, q2 = s.eval1, s.eval2
        except Exception as err:
            ex = ('raise', type(err).__name__)
            q1 = q2 = 1.0
        vals = dict(full, eval1_quad=q1, eval2_quad=q2)
        lines.append(_twin('SedovInit', e, vals))
        exp.append(ex)
        info.append(dict(params=p))
    _compare(st, 'SedovInit', lines, exp, info)


def _run2_capture(s, r, t):
    """real `_run(np.array([r]), t, npts=2)` with the atoms of the traced two-node model captured:
    v_k = result of the k-th fminbound call, (f_k, g_k, h_k) = similarity functions `_run`
    evaluates at v_k, l_vv = lambda at the vacuum boundary"""
    M = _mod()
    atoms = {}
    state = dict(inside=0, k=0)
    real_opt = M.sci_opt
    real_funcs = s.sedov_funcs_standard

    class Opt(object):
        @staticmethod
        def fminbound(f, a, b, **kw):
            state['inside'] += 1
            try:
                v = real_opt.fminbound(f, a, b, **kw)
            finally:
                state['inside'] -= 1
            atoms['v_%d' % state['k']] = float(v)
            state['last'] = (float(v), state['k'])
            state['k'] += 1
            return v

    def funcs(v):
        out = real_funcs(v)
        if not state['inside']:
            if 'last' in state and float(v) == state['last'][0]:
                k = str(state['last'][1])
            else:
                k = 'vv'
            for n, x in zip(('l', 'dl', 'f', 'g', 'h'), out):
                atoms['%s_%s' % (n, k)] = float(x)
        return out
    M.sci_opt = Opt
    s.sedov_funcs_standard = funcs
    try:
        with warnings.catch_warnings():
            warnings.simplefilter('ignore')
            with np.errstate(all='ignore'):
                sol = s._run(np.array([r]), t, npts=2)
    finally:
        M.sci_opt = real_opt
        del s.sedov_funcs_standard
    return sol, atoms


def _tie_run2(st, man, rng, n):
    for name, kind in (('SedovRunSing', 'singular'), ('SedovRunStd', 'standard'), ('SedovRunVac', 'vacuum')):
        e = man[name]
        lines, exp, info = [], [], []
        for i in range(n):
            p = sample(rng, kind)
            s = construct(p)
            t = rng.uniform(0.1, 2.0) if i else 0.0
            r2 = r2_of(s, max(t, 0.1))
            r = r2 * rng.choice([rng.uniform(0.02, 0.99), rng.uniform(1.01, 2.0), 1.0])
            sol, atoms = _run2_capture(s, r, t)
            vals = dict(p, alpha=s.alpha, r=r, t=t)
            vals.update(atoms)
            for a in e['params']:
                vals.setdefault(a, 0.0)          # atoms of paths this input does not take
            lines.append(_twin(name, e, vals))
            if t > 0:
                exp.append(('ok', [float(sol[f][0]) for f in e['fields']]))
            else:
                exp.append(('nan',))
            info.append(dict(params=p, r=r, t=t))
        _compare(st, name, lines, exp, info)


_TIE_CACHE = {}


def tie_models(rng, deep):
    """all generated Sedov function models; evaluated once per process and tier"""
    if deep in _TIE_CACHE:
        c = dict(_TIE_CACHE[deep])
        c['evaluations'] = 0
        c['distinct_nontrivial'] = 0
        return c
    man = _manifest()
    st = dict(evaluations=0, distinct_nontrivial=0, mismatches=[], samples=[], leaf_hist={})
    n = 40 if deep else 8
    _tie_shock(st, man, rng, n)
    _tie_funcs(st, man, rng, 3 * n)
    _tie_small(st, man, rng, n)
    _tie_init(st, man, rng, 2 * n)
    _tie_run2(st, man, rng, n)
    _TIE_CACHE[deep] = st
    return st


# --------------------------------------------------------------------------
# oracles on the real public call
# --------------------------------------------------------------------------
NGRID = 3001


def _solve_nodes(p, t):
    """the public call on the solver's own grid nodes 0..r2 (max(r) = r2, so no interpolation
    error except in the small-radius region the solver itself interpolates)"""
    s = construct(p)
    # "at every time": the solver object has already served a request at another time (a value
    # cached from an earlier call must not leak into this one)
    t0 = 0.37 * t + 0.11
    try:
        s(np.linspace(0.0, r2_of(s, t0), 4)[1:], t0)
    except Exception:
        pass
    r2 = r2_of(s, t)
    r = np.linspace(0.0, r2, NGRID)
    sol = s(r, t)
    return s, r2, r, sol


def _trapz(y, x):
    return float(np.sum(0.5 * (y[1:] + y[:-1]) * (x[1:] - x[:-1])))


ETOL = 2e-3      # calibrated on the unchanged tree over the regular domain (worst 1.1e-4), 10x margin
MTOL = 2e-3


def singular_exponents(s):
    """exponents of the integrable singularities of the density profile: (origin, vacuum edge).
    Standard type: rho r^(k-1) ~ lambda^e0 at the origin with e0 = (k-1) + (a3 + a2 omega)/|a2|;
    vacuum type: rho ~ (lambda - lambda_vacuum)^a5 at the edge of the hole.  A negative exponent
    means the exact integrand is unbounded (but integrable) there."""
    e0 = e1 = 0.0
    if s.solution_type == 'standard' and s.a2 != 0:
        e0 = (s.geometry - 1) + (s.a3 + s.a2 * s.omega) / abs(s.a2)
    if s.solution_type == 'vacuum':
        e1 = s.a5
    return e0, e1


def regular(p):
    """parameter sets whose energy and mass integrands are bounded on 0 <= r <= r2, so that the
    solver's uniform 3001-node grid with linear interpolation resolves the integrals"""
    try:
        e0, e1 = singular_exponents(construct(p))
    except Exception:
        return False
    return e0 >= 0.0 and e1 >= 0.0


def _integrals(c):
    p, t = c['params'], c['t']
    s, r2, r, sol = _solve_nodes(p, t)
    k = p['geometry']
    rho, u, pr = (np.asarray(sol[n], dtype=float) for n in ('density', 'velocity', 'pressure'))
    w = r ** (k - 1)
    en = Ak(k) * _trapz((0.5 * rho * u ** 2 + pr / (p['gamma'] - 1.0)) * w, r)
    ma = Ak(k) * _trapz(rho * w, r)
    m0 = Ak(k) * p['rho0'] * r2 ** (k - p['omega']) / (k - p['omega'])
    return s, en, ma, m0


def _site(what, s):
    """regimes with an integrable density singularity get their own (stable) site"""
    e0, e1 = singular_exponents(s)
    if e0 < 0:
        return 'Sedov:%s-integral:origin-singularity' % what
    if e1 < 0:
        return 'Sedov:%s-integral:vacuum-edge-singularity' % what
    return 'Sedov:%s-integral[%s]' % (what, s.solution_type)


def _check_energy(c):
    try:
        s, en, ma, m0 = _integrals(c)
    except Exception:
        return None
    E = c['params']['eblast']
    rec = c.get('recorded', {}).get('energy')
    if rec is not None and not abs(en / E / rec - 1.0) <= 0.03:
        return dict(site=_site('energy', s) + ':changed',
                    detail='energy ratio %r at the recorded witness, %r on the tree the finding was recorded on' % (en / E, rec))
    if not abs(en / E - 1.0) <= ETOL:
        return dict(site=_site('energy', s),
                    detail='energy behind the shock %r, eblast %r, ratio %r' % (en, E, en / E))
    return None


def _check_mass(c):
    try:
        s, en, ma, m0 = _integrals(c)
    except Exception:
        return None
    rec = c.get('recorded', {}).get('mass')
    if rec is not None and not abs(ma / m0 / rec - 1.0) <= 0.03:
        return dict(site=_site('mass', s) + ':changed',
                    detail='mass ratio %r at the recorded witness, %r on the tree the finding was recorded on' % (ma / m0, rec))
    if not abs(ma / m0 - 1.0) <= MTOL:
        return dict(site=_site('mass', s),
                    detail='mass behind the shock %r, initial mass inside r2 %r, ratio %r' % (ma, m0, ma / m0))
    return None


def _gen_regular(rng):
    while True:
        p = sample(rng)
        if regular(p):
            return dict(params=p, t=rng.uniform(0.2, 2.0))


energy = O.make(_gen_regular, _check_energy, 'sedov.energy')
mass = O.make(_gen_regular, _check_mass, 'sedov.mass')

# Regimes in which the exact density has an integrable singularity (planar standard solutions
# with omega > 1/gamma at the origin; vacuum solutions with a5 < 0 at the edge of the hole): the
# uniform grid + linear interpolation of the returned solution does not resolve it and the
# integrals of the RETURNED solution are off by O(1).  Fixed witnesses, evaluated on every run.
SINGULAR_WITNESSES = [
    dict(params=dict(geometry=1, gamma=2.4, rho0=1.0, omega=0.85, eblast=1.0), t=1.0, recorded=dict(energy=1.0000, mass=2.6539)),
    dict(params=dict(geometry=2, gamma=1.3, rho0=1.0, omega=1.94, eblast=1.0), t=1.0, recorded=dict(energy=0.8503, mass=0.7639)),
]
# `recorded`: the ratios the unchanged tree returns at the witness.  A known finding is a specific defect, not a licence
# for the regime: a ratio that moved by more than 3 % gets another site (seeded C11-6 turned 0.85 into 17.4 at the
# second witness and was first reported as the known finding).


def _gen_w(i):
    return lambda rng: SINGULAR_WITNESSES[i]


def _seq(*runs):
    """run several oracles one after the other and merge their reports"""
    def run(rng, budget, deep, replay=None):
        if replay is not None:
            case = replay.get('case', replay)
            for r in runs:
                res = r(rng, budget, deep, replay=replay)
                if res.get('failures'):
                    return res
            return res
        tot = dict(evaluations=0, failures=[], samples=[], worst=None, distinct_nontrivial=0)
        for r in runs:
            res = r(rng, budget, deep)
            tot['evaluations'] += res['evaluations']
            tot['distinct_nontrivial'] += res['distinct_nontrivial']
            tot['failures'] += res['failures']
            tot['samples'] += res['samples']
        return tot
    return run


def _once(gen, check, name):
    """a fixed witness: evaluated exactly once per run"""
    inner = O.make(gen, check, name)

    def run(rng, budget, deep, replay=None):
        if replay is not None:
            return inner(rng, budget, deep, replay=replay)
        c = gen(rng)
        return inner(rng, 0, deep, replay=dict(case=c))
    return run


energy_all = _seq(energy, _once(_gen_w(1), _check_energy, 'sedov.energy.vacuum-edge'))
mass_all = _seq(mass, _once(_gen_w(0), _check_mass, 'sedov.mass.origin'), _once(_gen_w(1), _check_mass, 'sedov.mass.vacuum-edge'))


def _gen_ambient(rng):
    return dict(params=sample(rng), t=rng.uniform(0.2, 2.0), fac=[rng.uniform(1.002, 2.5) for _ in range(6)],
                rmax=rng.uniform(2.5, 3.0))


def _check_ambient(c):
    p, t = c['params'], c['t']
    try:
        s = construct(p)
        r2 = r2_of(s, t)
        pts = sorted(f * r2 for f in c['fac']) + [c['rmax'] * r2]
        sol = s(np.array(pts), t)
    except Exception:
        return None
    for i, x in enumerate(pts):
        if x <= r2 + 1.5 * pts[-1] / (NGRID - 1):
            continue        # the grid cell that contains the shock is interpolated across it
        rho0 = p['rho0'] * x ** (-p['omega'])
        # density: linear interpolation of rho0 r^-omega on the grid (relative error <= h^2 omega(omega+1)/(8 r^2))
        if O.relerr(float(sol['density'][i]), rho0) > 1e-5 or float(sol['velocity'][i]) != 0.0 \
                or float(sol['pressure'][i]) != 0.0 or float(sol['specific_internal_energy'][i]) != 0.0 \
                or float(sol['sound_speed'][i]) != 0.0:
            return dict(site='Sedov:ambient-state',
                        detail='r=%r r2=%r: rho=%r (rho0 r^-omega=%r) u=%r p=%r' % (
                            x, r2, float(sol['density'][i]), rho0, float(sol['velocity'][i]), float(sol['pressure'][i])))
    return None


ambient = O.make(_gen_ambient, _check_ambient, 'sedov.ambient')


def _gen_sim(rng):
    # every run starts with one case of each solution type (a run may fit only three cases in its budget; the
    # singular type is a separate code path: seeded C10-6 broke only sedov_funcs_singular and was missed)
    k = getattr(_gen_sim, 'count', 0)
    _gen_sim.count = k + 1
    kind = ['singular', 'vacuum', 'standard', None, None][k % 5]
    return dict(params=sample(rng, kind), t1=rng.uniform(0.2, 1.0), t2=rng.uniform(1.0, 3.0),
                lam=sorted(rng.uniform(0.05, 1.0) for _ in range(6)), top=rng.uniform(1.0, 1.5))


def _check_sim(c):
    p = c['params']
    try:
        s = construct(p)
        out = []
        for t in (c['t1'], c['t2']):
            r2 = r2_of(s, t)
            sol = s(np.array([l * r2 for l in c['lam']] + [c['top'] * r2]), t)
            out.append((r2, t, sol, float(sol.jumps[0])))
    except Exception:
        return None
    (ra, ta, A, ja), (rb, tb, Bs, jb) = out
    xg2 = p['geometry'] + 2.0 - p['omega']
    if O.relerr(jb / ja, (tb / ta) ** (2.0 / xg2)) > 1e-12:
        return dict(site='Sedov:similarity:r2', detail='r2(t2)/r2(t1)=%r (t2/t1)^(2/(k+2-omega))=%r' % (jb / ja, (tb / ta) ** (2.0 / xg2)))
    fr = (rb / ra) ** (-p['omega'])
    fu = (rb / tb) / (ra / ta)
    for i in range(len(c['lam'])):
        for n, fac in (('density', fr), ('velocity', fu), ('pressure', fr * fu * fu),
                       ('specific_internal_energy', fu * fu), ('sound_speed', fu)):
            a, b = float(A[n][i]), float(Bs[n][i])
            if not (math.isfinite(a) and math.isfinite(b)):
                continue
            # the root finder's stopping point may differ by its own tolerance at the two times
            if abs(b - a * fac) > 1e-6 * max(abs(b), abs(a * fac)) + 1e-300:
                return dict(site='Sedov:similarity:' + n,
                            detail='lambda=%r: %s(t2)=%r, %s(t1)*factor=%r' % (c['lam'][i], n, b, n, a * fac))
    return None


similarity = O.make(_gen_sim, _check_sim, 'sedov.similarity')


def _shock_states(s, t):
    """post- and pre-shock state from the PUBLIC call, at the reported shock position"""
    sol = s(np.array([1.0]), t)                 # any call reports the shock position
    r2 = float(sol.jumps[0])
    post = s(np.array([r2]), t)                  # the node max(r) = r2 is the last one behind the shock
    pre = s(np.array([r2 * (1 + 1e-9)]), t)
    g = lambda z, n: float(z[n][0])
    return r2, post, pre, g


def _gen_rh(rng):
    return dict(params=sample(rng), t=rng.uniform(0.3, 2.0))


def _check_rh(c):
    p, t = c['params'], c['t']
    try:
        s = construct(p)
        r2, post, pre, g = _shock_states(s, t)
        # shock speed implied by where the solver places the shock: central differences, step halving
        def D(dt):
            a = float(s(np.array([1.0]), t + dt).jumps[0])
            b = float(s(np.array([1.0]), t - dt).jumps[0])
            return (a - b) / (2 * dt)
        d1, d2 = D(1e-3 * t), D(5e-4 * t)
    except Exception:
        return None
    Ds = d2 + (d2 - d1) / 3.0
    st = []
    for z in (pre, post):
        rho, u, pr, e = g(z, 'density'), g(z, 'velocity'), g(z, 'pressure'), g(z, 'specific_internal_energy')
        st.append((rho * (u - Ds), rho * (u - Ds) * u + pr, rho * (u - Ds) * (e + u * u / 2) + pr * u))
    scale = [abs(st[0][0]), abs(st[0][0] * Ds), abs(st[0][0] * Ds * Ds)]
    names = ('mass', 'momentum', 'energy')
    for i in range(3):
        # 5e-4: steep vacuum-type profiles next to the shock reach 9e-5 on the unchanged tree (seed 2)
        if abs(st[0][i] - st[1][i]) > 5e-4 * scale[i]:
            return dict(site='Sedov:rankine-hugoniot:' + names[i],
                        detail='D=%r flux ahead %r behind %r' % (Ds, st[0][i], st[1][i]))
    rho1, rho2 = g(pre, 'density'), g(post, 'density')
    if not (rho2 > rho1 > 0 and g(post, 'pressure') > g(pre, 'pressure') and g(post, 'velocity') > 0):
        return dict(site='Sedov:shock-not-compressive', detail='rho1=%r rho2=%r' % (rho1, rho2))
    return None


rh = O.make(_gen_rh, _check_rh, 'sedov.rh')


def _gen_pts(rng):
    return dict(params=sample(rng), t=rng.uniform(0.2, 2.0), lam=sorted(rng.uniform(0.0, 1.6) for _ in range(12)))


def _fields(c):
    p, t = c['params'], c['t']
    s = construct(p)
    r2 = r2_of(s, t)
    sol = s(np.array([l * r2 for l in c['lam']]), t)
    return s, r2, sol


def _check_eos(c):
    try:
        s, r2, sol = _fields(c)
    except Exception:
        return None
    gam = c['params']['gamma']
    for i in range(len(c['lam'])):
        rho, pr, e, cs = (float(sol[n][i]) for n in ('density', 'pressure', 'specific_internal_energy', 'sound_speed'))
        if not all(map(math.isfinite, (rho, pr, e, cs))):
            continue
        if O.relerr(pr, (gam - 1) * rho * e) > 1e-12:
            return dict(site='Sedov:p=(gamma-1)*rho*e', detail='lambda=%r p=%r (gamma-1)rho e=%r' % (c['lam'][i], pr, (gam - 1) * rho * e))
        if rho > 0 and O.relerr(cs * cs, gam * pr / rho) > 1e-12:
            return dict(site='Sedov:c^2=gamma*p/rho', detail='lambda=%r c^2=%r gamma p/rho=%r' % (c['lam'][i], cs * cs, gam * pr / rho))
    return None


eos = O.make(_gen_pts, _check_eos, 'sedov.eos')


def _check_adm(c):
    try:
        s, r2, sol = _fields(c)
    except Exception:
        return None
    for i, l in enumerate(c['lam']):
        rho, pr, e, cs, u = (float(sol[n][i]) for n in ('density', 'pressure', 'specific_internal_energy', 'sound_speed', 'velocity'))
        bad = None
        if not rho >= 0 or (l > 1 and not rho > 0):
            bad = 'density %r' % rho
        elif not pr >= 0:
            bad = 'pressure %r' % pr
        elif math.isfinite(e) and not e >= 0:
            bad = 'energy %r' % e
        elif not u >= 0:
            bad = 'velocity %r' % u
        elif s.solution_type == 'standard' and 0 < l < 1 and not (rho > 0 and pr > 0):
            bad = 'standard solution: rho=%r p=%r behind the shock' % (rho, pr)
        if bad:
            return dict(site='Sedov:admissibility', detail='lambda=%r %s' % (l, bad))
    return None


admissible = O.make(_gen_pts, _check_adm, 'sedov.admissible')


def _gen_units(rng):
    d = _gen_pts(rng)
    d['scale'] = [rng.uniform(0.2, 5.0) for _ in range(3)]
    return d


def _check_units(c):
    p, t = c['params'], c['t']
    Ms, Ls, Ts = c['scale']
    k, om = p['geometry'], p['omega']
    q = dict(p, rho0=p['rho0'] * Ms * Ls ** (om - 3), eblast=p['eblast'] * Ms * Ls ** (k - 1) / Ts ** 2)
    try:
        s, r2, A = _fields(c)
        s2 = construct(q)
        Bs = s2(np.array([l * r2 * Ls for l in c['lam']]), t * Ts)
    except Exception:
        return None
    if O.relerr(float(Bs.jumps[0]), Ls * float(A.jumps[0])) > 1e-12:
        return dict(site='Sedov:units:r2', detail='r2 scaled %r, L*r2 %r' % (float(Bs.jumps[0]), Ls * float(A.jumps[0])))
    fac = dict(density=Ms / Ls ** 3, velocity=Ls / Ts, pressure=Ms / Ls / Ts ** 2,
               specific_internal_energy=(Ls / Ts) ** 2, sound_speed=Ls / Ts)
    for i in range(len(c['lam'])):
        for n, f in fac.items():
            a, b = float(A[n][i]), float(Bs[n][i])
            if not (math.isfinite(a) and math.isfinite(b)):
                continue
            if abs(b - a * f) > 1e-6 * max(abs(b), abs(a * f)) + 1e-300:
                return dict(site='Sedov:units:' + n, detail='lambda=%r scaled call %r, scaled field %r' % (c['lam'][i], b, a * f))
    return None


units = O.make(_gen_units, _check_units, 'sedov.units')


# ---- C20: constructor catalogue ---------------------------------------------------------------
# documented restrictions (sedov.py parameter help, error messages, Kamm & Timmes):
#   geometry in {1,2,3}; gamma > 1; rho0 > 0; eblast > 0; 0 <= omega < geometry
VIOLATING = [
    ('gamma=1', dict(gamma=1.0)), ('gamma<1', dict(gamma=0.9)), ('rho0=0', dict(rho0=0.0)), ('rho0<0', dict(rho0=-1.0)),
    ('eblast=0', dict(eblast=0.0)), ('eblast<0', dict(eblast=-1.0)), ('omega<0', dict(omega=-0.1)),
    ('omega=geometry', dict(omega=3.0)), ('omega>geometry', dict(geometry=2, omega=2.5)),
    ('geometry=4', dict(geometry=4)), ('geometry=0', dict(geometry=0)), ('geometry=2.5', dict(geometry=2.5)),
]
ADMISSIBLE_EDGE = [
    ('defaults', dict()), ('omega=0', dict(omega=0.0)), ('omega just below geometry', dict(geometry=2, omega=1.999)),
    ('singular omega', dict(geometry=3, gamma=1.4, omega=7. / 3.)), ('omega2', SPECIAL_CASES[1]), ('omega3', SPECIAL_CASES[0]),
    ('gamma just above 1', dict(gamma=1.0 + 1e-6)),
]


def _check_reject(c):
    try:
        s = construct(c['params'])
    except ValueError:
        return None
    except Exception as ex:
        return dict(site='Sedov.__init__:%s:%s' % (c['label'], type(ex).__name__),
                    detail='documented-invalid parameters %r die with %s(%s) instead of ValueError' % (c['params'], type(ex).__name__, ex))
    try:
        with np.errstate(all='ignore'):
            sol = s(np.array([0.3, 0.6]), 1.0)
        vals = [float(sol[n][i]) for n in ('density', 'pressure', 'velocity') for i in (0, 1)]
        how = 'returns %s numbers' % ('finite' if all(map(math.isfinite, vals)) else 'non-finite')
    except Exception as ex:
        how = 'the call raises %s' % type(ex).__name__
    return dict(site='Sedov.__init__:%s:accepted' % c['label'],
                detail='documented-invalid parameters %r are accepted; %s' % (c['params'], how))


def _catalogue(cases, check, name, extra=None):
    """every catalogue entry exactly once per run (deterministic), then optional random cases"""
    runs = [_once((lambda rng, c=c: c), check, name) for c in cases]
    if extra is not None:
        runs.append(extra)
    return _seq(*runs)


reject = _catalogue([dict(label=l, params=q) for l, q in VIOLATING], _check_reject, 'sedov.reject')


def _check_admit(c):
    try:
        s = construct(c['params'])
        with np.errstate(all='ignore'):
            r2 = r2_of(s, 1.0)
            sol = s(np.array([0.5 * r2, 0.9 * r2, 1.3 * r2]), 1.0)
    except Exception as ex:
        return dict(site='Sedov:%s:%s' % (c['label'], type(ex).__name__),
                    detail='admissible parameters %r: %s(%s)' % (c['params'], type(ex).__name__, ex))
    for n in ('density', 'pressure', 'velocity'):
        for i in range(3):
            if not math.isfinite(float(sol[n][i])):
                return dict(site='Sedov:%s:non-finite' % c['label'], detail='%s[%d]=%r' % (n, i, float(sol[n][i])))
    return None


accepts = _catalogue([dict(label=l, params=q) for l, q in ADMISSIBLE_EDGE], _check_admit, 'sedov.admit',
                   extra=O.make(lambda rng: dict(label='random', params=sample(rng)), _check_admit, 'sedov.admit.random'))


# ---- "at every time": an object that has already answered at one time answers correctly at another ----
TWO_TIMES_CASES = [
    dict(geometry=3, gamma=1.4, rho0=1.0, omega=2.4, eblast=5.4567),      # Kamm & Timmes vacuum case
    dict(geometry=2, gamma=1.4, rho0=1.0, omega=1.7, eblast=2.67315),     # Kamm & Timmes vacuum case
    dict(geometry=3, gamma=1.4, rho0=1.0, omega=0.0, eblast=0.851072),    # standard
    dict(geometry=3, gamma=1.4, rho0=1.0, omega=7. / 3. + 1e-6, eblast=4.90875),   # singular band
]


def two_times(rng, budget, deep, replay=None):
    """energy and mass integrals at time t2 from an object first used at t1, against the same
    integrals from a fresh object (any difference means state carried over between calls) and,
    on the regular cases, against the blast energy / initial mass"""
    res = dict(evaluations=0, distinct_nontrivial=0, failures=[], samples=[])
    cases = TWO_TIMES_CASES if deep else TWO_TIMES_CASES[:2] + [TWO_TIMES_CASES[rng.randrange(2, 4)]]
    for p in cases:
        for (t1, t2) in ((1.0, 0.5), (0.4, 1.3)):
            try:
                used = construct(p)
                used(np.linspace(0.0, r2_of(used, t1), 4)[1:], t1)
                k = p['geometry']
                r2 = r2_of(used, t2)
                r = np.linspace(0.0, r2, NGRID)
                a, b = used(r, t2), construct(p)(r, t2)
            except Exception:
                continue
            res['evaluations'] += 2
            res['distinct_nontrivial'] += 1
            if not res['samples']:
                res['samples'].append(dict(params=p, t1=t1, t2=t2))
            w = r ** (k - 1)
            vals = []
            for sol in (a, b):
                rho, u, pr = (np.asarray(sol[n], dtype=float) for n in ('density', 'velocity', 'pressure'))
                vals.append((Ak(k) * _trapz((0.5 * rho * u ** 2 + pr / (p['gamma'] - 1.0)) * w, r), Ak(k) * _trapz(rho * w, r)))
            (e_used, m_used), (e_fresh, m_fresh) = vals
            if abs(e_used - e_fresh) > 1e-9 * abs(e_fresh) or abs(m_used - m_fresh) > 1e-9 * abs(m_fresh):
                res['failures'].append(dict(
                    site='Sedov:integrals:earlier-call',
                    detail='after a call at t=%g the energy/mass behind the shock at t=%g are %r / %r; a fresh object gives %r / %r'
                           % (t1, t2, e_used, m_used, e_fresh, m_fresh), case=dict(params=p, t1=t1, t2=t2)))
                return res
    return res
