"""C06 on the REAL code: a value depends only on (parameters, point, time).

* effects_tie   -- runtime validation of the effect extractor (the tie of the effect IR)
* batch         -- value at a point vs the same point alone / in other batches / shuffled / duplicated
* history       -- random interleavings of constructions, calls and configuration calls over a pool
                   of solver objects in one interpreter vs each call made first in a fresh interpreter
"""
import contextlib
import io
import json
import math
import os
import struct
import subprocess
import sys
import time
import warnings

import numpy as np

from . import catalog, effects_rt, lean_io

# documented as grid-dependent: may vary within their documented resolution
GRID_TOL = {
    'Mader': 5e-2,            # cell averages over the requested cells
    'Sedov': 2e-3, 'PlanarSedov': 2e-3, 'CylindricalSedov': 2e-3, 'SphericalSedov': 2e-3,   # 3001-point table, linear interpolation
    'SteadyDetonationReactionZone': 1e-3,
}


def _quiet():
    return contextlib.redirect_stdout(io.StringIO())


# --------------------------------------------------------------------------------------
def effects_tie(rng, deep):
    from exactpack.solvers.suolson import SuOlson
    from exactpack.solvers.rmtv import Rmtv
    from exactpack.solvers.radshocks import ED_Solver, ie_Solver, nED_Solver
    ir, locs, progs = effects_rt.load_ir()
    st = dict(evaluations=0, distinct_nontrivial=0, mismatches=[], samples=[], events=0)
    runs = [
        ('suolson_suolson', lambda: SuOlson(trad_bc_ev=1.0e3, opac=rng.uniform(0.5, 2.0))(
            np.array([rng.uniform(0.05, 2.0), rng.uniform(2.0, 10.0)]), 10 ** rng.uniform(-10.5, -9))),
        ('rmtv_rmtv', lambda: Rmtv()(np.array(sorted(rng.uniform(0.05, 0.99) for _ in range(3))), 1.0)),
        ('radshocks_Shock_2Tie_IE_driver', lambda: ie_Solver(M0=rng.uniform(1.1, 1.4))),
        ('radshocks_greyED_RadShock_ED_driver', lambda: ED_Solver(M0=rng.uniform(1.1, 1.6))),
        ('radshocks_greyNED_RadShock_nED_driver', lambda: nED_Solver(M0=rng.uniform(1.1, 1.4))),
    ]
    if deep:
        from exactpack.solvers.guderley import Guderley
        runs.append(('guderley_guderley_1d', lambda: Guderley(gamma=3.0)(np.array([0.5]), -0.5)))
    with warnings.catch_warnings(), _quiet(), np.errstate(all='ignore'):
        warnings.simplefilter('ignore')
        for name, fn in runs:
            if name not in ir:
                st['mismatches'].append(dict(why='entry point %s is not in the generated effect table' % name))
                continue
            try:
                tr = effects_rt.record(fn, locs)
            except Exception as ex:
                st['mismatches'].append(dict(why='%s: real call failed under tracing: %s' % (name, ex)))
                continue
            st['evaluations'] += 1
            st['events'] += len(tr)
            if tr:
                st['distinct_nontrivial'] += 1
            bad = effects_rt.clean(tr)
            if not tr:
                # every one of these entry points reads and writes module-level globals (`programs_read`):
                # an empty recording means the tracer saw nothing, and an empty trace would be accepted
                # by any `loop` -- report it instead of passing vacuously
                st['mismatches'].append(dict(why='%s: the real call was recorded with no event on a shared location' % name))
            elif bad is not None:
                st['mismatches'].append(dict(why='%s: real execution read location %s before writing it' % (name, bad[1])))
            elif not effects_rt.accepts(ir[name], tr):
                st['mismatches'].append(dict(why='%s: observed event trace (%d events) is not a trace of the extracted IR'
                                                 % (name, len(tr))))
            if len(st['samples']) < 1:
                st['samples'].append(dict(entry=name, events=len(tr), first=[list(e[:2]) for e in tr[:8]]))
    return st


# --------------------------------------------------------------------------------------
def _cols(sol, dim):
    return {n: np.asarray(sol[n]) for n in sol.dtype.names}


def _same(a, b, tol):
    a, b = np.asarray(a), np.asarray(b)
    if a.dtype.kind in 'OUS' or b.dtype.kind in 'OUS':
        return bool(a == b)
    if np.isnan(a) and np.isnan(b):
        return True
    # never bit-for-bit across *different* requests: NumPy's vectorised loops may round the last
    # bit differently depending on where an element sits in the array
    tol = max(tol, 1e-13)
    return bool(abs(a - b) <= tol * max(abs(a), abs(b), 1e-300) + 0.0)


def batch_for(*fragments):
    """the batch / request-form oracle restricted to the classes whose module path contains one of the
    fragments: the other properties quantify over points, not over how a point is written down, so a
    family whose values depend on the form of the request (order, container, dtype, array re-use) does
    not have the property at the points the theorems talk about"""
    def run(rng, budget, deep, replay=None):
        return batch(rng, budget, deep, replay, only=fragments)
    run.__name__ = 'batch_for_' + '_'.join(fragments)
    return run


def batch(rng, budget, deep, replay=None, only=None):
    res = dict(evaluations=0, distinct_nontrivial=0, failures=[], samples=[])
    classes = catalog.discover()
    if only:
        classes = {p_: c_ for p_, c_ in classes.items() if any(f_ in p_.split(':')[0] for f_ in only)}
    sites = set()
    with warnings.catch_warnings(), _quiet(), np.errstate(all='ignore'):
        warnings.simplefilter('ignore')
        # family mode (batch_for): every class once with the catalogue parameters and once with a variant;
        # whole-package mode: one pass, the variant taken half of the time (bounded run time)
        work = [(p_, c_, None) for p_, c_ in sorted(classes.items())] if not only else \
            [(p_, c_, v_) for p_, c_ in sorted(classes.items()) for v_ in (False, True)]
        for path, c, force_variant in work:
            e = catalog.entry(path)
            name = path.split(':')[1]
            if replay is not None and replay.get('cls') != path:
                continue
            if e.unconstructible or e.grid or (e.slow and not deep):
                continue
            tol = GRID_TOL.get(name, 0)
            try:
                s, kw = catalog.build(path, c, rng)
                # half of the time with non-default parameter values (a shift to the detonator frame done in place is
                # invisible with the detonator at the origin: seeded C09-9 / C13-9)
                if force_variant or (force_variant is None and rng.random() < 0.5):
                    kwv = catalog.variant_kwargs(path, c, rng, kw)
                    if kwv is None and force_variant:
                        continue               # no variant for this class: the catalogue pass covered it
                    if kwv is not None:
                        try:
                            s, kw = c(*(e.args() if e.args else ()), **kwv), kwv
                        except Exception:
                            if force_variant:
                                continue
                n = rng.randint(max(e.min_n, 3), 8)
                A = e.points(rng, n)
                t = e.t(rng)
                if not tol and name != 'Mader' and not e.slow:
                    # put points on both sides of every discontinuity of the returned fields
                    A = catalog.refine_points(s, e, rng, t, A)
                    n = len(A)
                i = rng.randrange(n)
                extra = e.points(rng, rng.randint(2, 6))
                B = np.concatenate([extra[:1], A[i:i + 1], extra[1:], A[i:i + 1]])     # superset pieces + duplicate
                perm = list(range(n))
                rng.shuffle(perm)
                A_before = np.array(A, copy=True)
                solA = s(A, t)
                if not np.array_equal(A, A_before):
                    site = '%s:request-array-modified' % name
                    if site not in sites:
                        sites.add(site)
                        res['failures'].append(dict(site=site, detail='the call changed the caller\'s array of points in place '
                                                    '(first point %r -> %r)' % (A_before[0].tolist() if e.dim > 1 else float(A_before[0]),
                                                                                A[0].tolist() if e.dim > 1 else float(A[0])),
                                                    case=dict(cls=path, kind='request-array-modified', t=t, kwargs=repr(kw)[:200])))
                    A = A_before.copy()
                if 'Sedov' in name:
                    # sedov.py documents the small-radius regime as interpolated and "not to be trusted":
                    # compare only points with r >= r_shock/2
                    ok_i = [k for k in range(n) if A[k] >= 0.5 * float(getattr(s, 'r2', 0.0))]
                    if not ok_i:
                        continue
                    i = rng.choice(ok_i)
                    B = np.concatenate([extra[:1], A[i:i + 1], extra[1:], A[i:i + 1]])
                names = solA.dtype.names
                if len(solA) != n:
                    continue       # contract violation: C05's business
                variants = [('shuffled', s(A[perm], t), perm.index(i)), ('other-batch', s(B, t), 1),
                            ('duplicate', s(B, t), len(B) - 1), ('reversed', s(A[::-1].copy(), t), n - 1 - i)]
                if e.min_n <= 1:
                    variants.append(('alone', s(A[i:i + 1], t), 0))
                else:
                    variants.append(('pair', s(np.concatenate([A[i:i + 1], extra[:1]]) if e.dim > 1 else
                                               np.array(sorted([A[i], extra[0]])), t), None))
                # repeated call on the same object
                variants.append(('again', s(A, t), i))
                # a second object with the same parameters that has served another time (and other points) first
                try:
                    s2 = c(*(e.args() if e.args else ()), **kw)
                    t_other = e.t(rng)
                    try:
                        s2(e.points(rng, max(e.min_n, 2)), t_other)
                    except Exception:
                        pass
                    variants.append(('object-used-at-another-time', s2(A, t), i))
                except Exception:
                    pass
                # the caller re-uses one array object and updates it in place between two calls:
                # the value at a point may not depend on what the array held before
                W = np.array(A[perm], copy=True)
                s(W, t)
                W[...] = A
                variants.append(('request-array-updated-in-place', s(W, t), i))
                if name == 'Mader':
                    # Mader's values are averages over cells whose width is derived from the batch
                    # (documented): only the repeated identical request is comparable here; that the
                    # averages stay between the neighbouring states is C17's business
                    variants = variants[-1:]
            except Exception as ex:
                site = '%s:batch-dependent-exception' % name
                if site not in sites and not isinstance(ex, (KeyboardInterrupt,)):
                    # a request that raises for one batch and not for another is a dependence on the batch
                    try:
                        s(A[i:i + 1] if e.min_n <= 1 else A, t)
                        sites.add(site)
                        res['failures'].append(dict(site=site, detail='%s: %s' % (type(ex).__name__, str(ex)[:150]),
                                                    case=dict(cls=path)))
                    except Exception:
                        pass
                continue
            res['evaluations'] += len(variants)
            res['distinct_nontrivial'] += 1
            if not res['samples']:
                res['samples'].append(dict(cls=path, n=n, point=A[i].tolist() if e.dim > 1 else float(A[i]), t=t))
            # the same points at a much later time first, then at t — compared with a fresh object asked for the
            # points moved by a relative 1e-12 (a memo keyed by the points, at module, class or object level, is
            # hit by the former and not by the latter; seeded C18-6)
            if not tol and name != 'Mader':
                try:
                    s3 = c(*(e.args() if e.args else ()), **kw)
                    P3 = e.points(rng, max(e.min_n, 3))
                    late = None
                    for fac in (40.0, 10.0, 1.0 / 40.0):
                        try:
                            s3(P3, t * fac)
                            late = fac
                            break
                        except Exception:
                            pass
                    if late is not None:
                        early = s3(P3, t)
                        ref = c(*(e.args() if e.args else ()), **kw)(P3 * (1.0 + 1e-12), t)
                        res['evaluations'] += 1
                        for nm in names[e.dim:]:
                            a_, b_ = np.asarray(early[nm]), np.asarray(ref[nm])
                            if a_.dtype.kind not in 'fc' or b_.dtype.kind not in 'fc':
                                continue
                            sc = float(np.nanmax(np.abs(b_))) if b_.size else 0.0
                            bad = [k_ for k_ in range(len(a_)) if not (abs(a_[k_] - b_[k_]) <= 1e-7 * max(abs(b_[k_]), sc, 1e-300)
                                                                       or (np.isnan(a_[k_]) and np.isnan(b_[k_])))]
                            if bad:
                                site = '%s:history-late-early' % name
                                if site not in sites:
                                    sites.add(site)
                                    res['failures'].append(dict(
                                        site=site, detail='field %s: %r after the same points were requested at t x %g first, %r from a fresh '
                                                          'object at points moved by 1e-12' % (nm, a_[bad[0]], late, b_[bad[0]]),
                                        case=dict(cls=path, kind='late-then-early', t=t,
                                                  point=P3[bad[0]].tolist() if e.dim > 1 else float(P3[bad[0]]))))
                                break
                except Exception:
                    pass
            # the same points given as an integer array and as a float array (ExactSolver.__call__ only does
            # numpy.asarray, so an integer grid reaches _run as integers): same values
            if not tol and name != 'Mader':
                try:
                    G_ = np.asarray(e.points(rng, 40), dtype=float)
                    lo_, hi_ = np.min(G_, axis=0), np.max(G_, axis=0)
                    I_ = np.unique(np.rint(G_), axis=0)
                    I_ = I_[np.all((I_ >= lo_) & (I_ <= hi_), axis=-1)] if e.dim > 1 else I_[(I_ >= lo_) & (I_ <= hi_)]
                    if len(I_) >= max(e.min_n, 1):
                        sf = s(I_.astype(float), t)
                        try:
                            si = s(I_.astype(np.int64), t)
                        except Exception as ex:
                            si = None
                            site = '%s:integer-request-raises' % name
                            if site not in sites:
                                sites.add(site)
                                res['failures'].append(dict(
                                    site=site, detail='%s: %s for integer-typed points that are accepted as floats'
                                                      % (type(ex).__name__, str(ex)[:120]),
                                    case=dict(cls=path, kind='integer-dtype', t=t, points=I_.tolist())))
                        res['evaluations'] += 1
                        if si is not None:
                            for nm in names:
                                bad = [k_ for k_ in range(len(I_)) if not _same(sf[nm][k_], si[nm][k_], 0)]
                                if bad:
                                    site = '%s:integer-request' % name
                                    if site not in sites:
                                        sites.add(site)
                                        res['failures'].append(dict(
                                            site=site, detail='field %s at the same point: %r for a float array, %r for an integer array'
                                                              % (nm, sf[nm][bad[0]], si[nm][bad[0]]),
                                            case=dict(cls=path, kind='integer-dtype', t=t,
                                                      point=I_[bad[0]].tolist() if e.dim > 1 else float(I_[bad[0]]))))
                                    break
                except Exception:
                    pass
            # grid-dependent solvers: a difference is within the documented resolution when it is
            # explained by moving the point by two cells of the internal grid
            bracket = None
            if tol and e.dim == 1:
                hi = max(float(np.max(A)), float(np.max(B)))
                dx = 2.0 * hi / 3000.0
                try:
                    nb = s(np.array([max(A[i] - dx, 1e-9), A[i], A[i] + dx]), t)
                    bracket = {nm: (float(np.min(nb[nm])), float(np.max(nb[nm]))) for nm in names}
                except Exception:
                    bracket = None
            # the shuffled request is compared at every point, not only at the chosen one
            if variants and variants[0][0] == 'shuffled' and not tol:
                solS = variants[0][1]
                for nm in names:
                    for k_ in range(n):
                        if not _same(solA[nm][k_], solS[nm][perm.index(k_)], 0):
                            site = '%s:batch' % name
                            if site not in sites:
                                sites.add(site)
                                res['failures'].append(dict(
                                    site=site, detail='field %s at the same point: %r in the given order, %r in a shuffled request'
                                                      % (nm, solA[nm][k_], solS[nm][perm.index(k_)]),
                                    case=dict(cls=path, kind='shuffled', t=t, point=A[k_].tolist() if e.dim > 1 else float(A[k_]))))
                            break
                    else:
                        continue
                    break
            for kind, sol, j in variants:
                if j is None:
                    x = A[i]
                    col = np.asarray(sol[names[0]])
                    j = int(np.argmin(abs(col - x))) if e.dim == 1 else 0
                for nm in names:
                    ok = _same(solA[nm][i], sol[nm][j], tol)
                    if not ok and bracket is not None:
                        lo, hi_ = bracket[nm]
                        pad = tol * max(abs(lo), abs(hi_), 1e-300)
                        ok = all(lo - pad <= float(v) <= hi_ + pad for v in (solA[nm][i], sol[nm][j]))
                    if not ok:
                        site = '%s:batch' % name
                        if name == 'SteadyDetonationReactionZone' and t > 1.0:
                            site = 'SteadyDetonationReactionZone:position_relative-uninitialised'     # see two_instances
                        if site not in sites:
                            sites.add(site)
                            res['failures'].append(dict(
                                site=site, detail='field %s at the same point: %r vs %r' % (nm, solA[nm][i], sol[nm][j]),
                                case=dict(cls=path, kind=kind, t=t, point=A[i].tolist() if e.dim > 1 else float(A[i]))))
                        break
    return res


# --------------------------------------------------------------------------------------
CHILD = r'''
import sys, json, struct, io, contextlib, warnings
warnings.simplefilter('ignore')
sys.path.insert(0, %(tools)r)
import numpy as np
from harness import catalog
import random
job = json.loads(sys.argv[1])
cl = catalog.discover()
c = cl[job['cls']]
e = catalog.entry(job['cls'])
with contextlib.redirect_stdout(io.StringIO()), np.errstate(all='ignore'):
    args = e.args() if e.args else ()
    s = c(*args, **job['kwargs'])
    sol = s(np.array(job['points']), job['t'])
out = {}
for n in sol.dtype.names:
    col = np.asarray(sol[n])
    out[n] = [struct.unpack('<Q', struct.pack('<d', float(v)))[0] if col.dtype.kind == 'f' else str(v) for v in col]
print('RESULT ' + json.dumps(out))
'''


def _bits(col):
    col = np.asarray(col)
    return [struct.unpack('<Q', struct.pack('<d', float(v)))[0] if col.dtype.kind == 'f' else str(v) for v in col]


def history(rng, budget, deep, replay=None):
    """one interpreter, many solvers, random interleaving; then each sampled call first in a fresh one"""
    res = dict(evaluations=0, distinct_nontrivial=0, failures=[], samples=[])
    classes = catalog.discover()
    usable = [p for p in sorted(classes) if not catalog.entry(p).unconstructible and not catalog.entry(p).grid
              and not catalog.entry(p).slow and not catalog.entry(p).args
              and p.split(':')[1] not in ('Hutchens2', 'Rectangle', 'PlanarCog14')]
    # always include the modules with shared mutable state
    must = [p for p in usable if p.split(':')[1] in ('SuOlson', 'Rmtv', 'ED_Solver', 'ie_Solver', 'nED_Solver')]
    pool = []
    calls = []
    last = {}
    nops = 40 if deep else 16
    with warnings.catch_warnings(), _quiet(), np.errstate(all='ignore'):
        warnings.simplefilter('ignore')
        for k in range(nops):
            if not pool or rng.random() < 0.45:
                path = rng.choice(must) if rng.random() < 0.4 else rng.choice(usable)
                e = catalog.entry(path)
                try:
                    kw = e.kwargs(rng)
                    pool.append((path, kw, classes[path](**kw)))
                except Exception:
                    pass
                continue
            path, kw, obj = rng.choice(pool)
            e = catalog.entry(path)
            pts = e.points(rng, max(e.min_n, rng.randint(1, 4)))
            t = e.t(rng)
            reuse = False
            if path in last and rng.random() < 0.5:
                # the same points again at a time far from the previous one (a memo keyed by the points —
                # seeded C18-6 — only shows when a late time comes first and an early one follows)
                pts, t_prev = last[path]
                t = t_prev * rng.choice([1.0 / 40.0, 1.0 / 10.0, 10.0, 40.0])
                reuse = True
            try:
                sol = obj(pts, t)
            except Exception:
                continue
            last[path] = (pts, t)
            calls.append(dict(cls=path, kwargs={a: (b if isinstance(b, (int, float, str, bool, list)) else None)
                                                for a, b in kw.items()},
                              points=pts.tolist(), t=t, got={n: _bits(sol[n]) for n in sol.dtype.names}, step=k, reuse=reuse))
    nsub = min(len(calls), 10 if deep else 4)
    if replay is None:
        pref = [c_ for c_ in calls if c_.get('reuse')]
        rng.shuffle(pref)
        rest = [c_ for c_ in calls if not c_.get('reuse')]
        rng.shuffle(rest)
        picks = (pref[:max(1, nsub // 2)] + rest)[:nsub]
    else:
        picks = [replay]
    for job in picks:
        got = job.pop('got', None)
        job.pop('reuse', None)
        p = subprocess.run([sys.executable, '-c', CHILD % dict(tools=os.path.join(lean_io.ROOT, 'tools')), json.dumps(job)],
                           capture_output=True, text=True, timeout=600)
        line = [l for l in p.stdout.split('\n') if l.startswith('RESULT ')]
        if not line:
            continue
        fresh = json.loads(line[0][7:])
        res['evaluations'] += 1
        res['distinct_nontrivial'] += 1
        if not res['samples']:
            res['samples'].append(dict(cls=job['cls'], step=job.get('step'), t=job['t'], n=len(job['points'])))
        if got is not None and fresh != got:
            name = job['cls'].split(':')[1]
            bad = [n for n in fresh if fresh[n] != got.get(n)]
            if name == 'SteadyDetonationReactionZone' and job['t'] > 1.0:
                res['failures'].append(dict(site='SteadyDetonationReactionZone:position_relative-uninitialised',
                                            detail='position_relative differs between the call inside a history and the same call made '
                                                   'first in a fresh interpreter (uninitialised memory, see two_instances)', case=job))
                continue
            res['failures'].append(dict(site='%s:history' % name,
                                        detail='fields %s differ between the call inside a history of %d operations '
                                               'and the same call made first in a fresh interpreter' % (bad, nops),
                                        case=job))
    return res


def two_instances(rng, budget, deep, replay=None):
    """construction and use of a *second* instance with different parameters must not change what
    the first returns, and an object used before must return what a fresh one returns"""
    res = dict(evaluations=0, distinct_nontrivial=0, failures=[], samples=[])
    classes = catalog.discover()
    sites = set()
    with warnings.catch_warnings(), _quiet(), np.errstate(all='ignore'):
        warnings.simplefilter('ignore')
        for path, c in sorted(classes.items()):
            e = catalog.entry(path)
            name = path.split(':')[1]
            if replay is not None and replay.get('cls') != path:
                continue
            # the general-EOS Riemann wrapper is slow (2 s a solve) but keeps a problem object: always in
            if e.unconstructible or e.grid or (e.slow and not deep and name != 'GenEOS_Solver') \
                    or name in ('Hutchens2', 'Rectangle', 'PlanarCog14'):
                continue
            try:
                args = e.args() if e.args else ()
                kw = e.kwargs(rng)
                kw2 = catalog.variant_kwargs(path, c, rng, kw) if name != 'GenEOS_Solver' else None
                a = c(*args, **kw)
                n = max(e.min_n, 3)
                P, Q = e.points(rng, n), e.points(rng, n + 1)
                t = e.t(rng)
                stored = {k_: (id(v_), v_.copy()) for k_, v_ in vars(a).items() if isinstance(v_, np.ndarray)}
                try:
                    # the very first request is at another time; the general-EOS wrapper at its latest catalogue time, when
                    # the driver widens its window (seeded C06-10: the widened window was written back to the object)
                    a(Q, e.t(rng) if name != 'GenEOS_Solver' else 0.25)
                except Exception:
                    pass
                r1 = a(P, t)
                if kw2 is not None:
                    b = c(*(e.args() if e.args else ()), **kw2)
                    b(Q, t)
                r2 = a(P, t)                      # after another instance was built and used
                try:
                    rq_now = a(Q, t)              # other points at the time just served (a memo keyed by t; seeded C06-2)
                except Exception:
                    rq_now = None
                try:
                    a(Q, e.t(rng))                # ... and after it served a request at another time
                except Exception:
                    pass
                rq = a(Q, t)                      # same object, same time, other points
                fresh = c(*(e.args() if e.args else ()), **kw)
                rq0 = fresh(Q, t)                 # the same request to an object never used before
            except Exception:
                continue
            res['evaluations'] += 3
            res['distinct_nontrivial'] += 1
            if not res['samples']:
                res['samples'].append(dict(cls=path, kwargs2=repr(kw2)[:120], t=t))
            # a call must not modify in place an array the object held before the call
            for k_, (i_, v_) in stored.items():
                w_ = vars(a).get(k_)
                if isinstance(w_, np.ndarray) and id(w_) == i_ and (w_.shape != v_.shape or not np.array_equal(w_, v_, equal_nan=True)):
                    site = '%s:stored-array-modified' % name
                    if site not in sites:
                        sites.add(site)
                        res['failures'].append(dict(site=site, detail='attribute %s was modified in place by a call' % k_,
                                                    case=dict(cls=path, t=t)))
            tol = GRID_TOL.get(name, 0)
            for kind, x, y in (('other-instance', r1, r2), ('used-object', rq, rq0)) + \
                    ((('used-object', rq_now, rq0),) if rq_now is not None and len(rq_now) == len(rq0) else ()):
                for nm in x.dtype.names:
                    bad = [k for k in range(len(x)) if not _same(x[nm][k], y[nm][k], 0 if kind == 'other-instance' else tol)]
                    if bad:
                        site = '%s:%s' % (name, kind)
                        if name == 'SteadyDetonationReactionZone' and t > 1.0:
                            # the recorded C02 defect (sdrz.py reads xvec_rel[it1] from an np.empty array for t > 1):
                            # uninitialised memory, so the value also changes from call to call — and with it every field the public call
                            # interpolates over the absolute positions built from it
                            site = 'SteadyDetonationReactionZone:position_relative-uninitialised'
                        if site not in sites:
                            sites.add(site)
                            res['failures'].append(dict(
                                site=site, detail='field %s differs (%r vs %r): %s' % (
                                    nm, x[nm][bad[0]], y[nm][bad[0]],
                                    'after a second instance with other parameters was built and called' if kind == 'other-instance'
                                    else 'between an object that served another request at this time and a fresh object'),
                                case=dict(cls=path, kwargs2=repr(kw2)[:200], t=t)))
                        break
    return res


def eppiston_batch(rng, budget, deep, replay=None):
    """deterministic witness: the same point raises or returns depending on the other points of the batch"""
    from exactpack.solvers.ep_piston import EPpiston
    res = dict(evaluations=2, distinct_nontrivial=2, failures=[], samples=[dict(points=[[0.1], [0.1, 5.0]], t=1.0)])
    out = []
    with _quiet():
        for pts in ([0.1], [0.1, 5.0]):
            try:
                out.append(('ok', float(EPpiston()(np.array(pts), 1.0).density[0])))
            except Exception as ex:
                out.append((type(ex).__name__, str(ex)[:80]))
    if out[0][0] != out[1][0]:
        res['failures'].append(dict(site='EPpiston:batch-dependent-exception',
                                    detail='EPpiston()([0.1], 1.0) -> %r ; EPpiston()([0.1, 5.0], 1.0) -> %r' % (out[0], out[1]),
                                    case=dict(points=[[0.1], [0.1, 5.0]], t=1.0)))
    return res


def ie_batch(rng, budget, deep, replay=None):
    """deterministic witness: ie_Solver's value at a point depends on the order of the request"""
    from exactpack.solvers.radshocks import ie_Solver
    res = dict(evaluations=2, distinct_nontrivial=2, failures=[], samples=[dict(points=[-0.01, 0.0, 0.005, 0.01], t=0.0)])
    with _quiet():
        s = ie_Solver()
        x = np.array([-0.01, 0.0, 0.005, 0.01])
        a = s(x, 0.0).temperature_ion
        b = s(x[::-1].copy(), 0.0).temperature_ion[::-1]
        mono = bool(np.all(np.diff(-np.flip(s.x)) >= 0))
    if not np.array_equal(a, b):
        res['failures'].append(dict(site='ie_Solver:batch',
                                    detail='temperature_ion at x=-0.01: %r in the ascending request, %r in the descending one '
                                           '(profile abscissa monotonic: %s)' % (float(a[0]), float(b[0]), mono),
                                    case=dict(points=x.tolist(), t=0.0)))
    return res


def r2d_fan_order(rng, budget, deep, replay=None):
    """deterministic witness: inside a strong expansion fan of the steady 2-D Riemann problem the per-point
    fsolve is warm-started from the previous point of the request, so the value depends on the order"""
    from exactpack.solvers.riemann2D_2section_steadystate.ep_riemann2D_2section_steadystate import IGEOS_Solver
    res = dict(evaluations=2, distinct_nontrivial=2, failures=[],
               samples=[dict(bottom_state=[1, 1, 10, 0, 1.4], top_state=[0.002, 0.01, 2.5, 0, 1.4], x=1.0, y='linspace(-1, 1, 401)')])
    with warnings.catch_warnings(), _quiet(), np.errstate(all='ignore'):
        warnings.simplefilter('ignore')
        s = IGEOS_Solver(bottom_state=[1, 1, 10, 0, 1.4], top_state=[0.002, 0.01, 2.5, 0, 1.4])
        y = np.linspace(-1.0, 1.0, 401)
        pts = np.stack([np.ones_like(y), y], axis=1)
        a = np.asarray(s(pts, 1.0)['pressure'])
        b = np.asarray(s(pts[::-1].copy(), 1.0)['pressure'])[::-1]
    d = np.abs(a - b)
    if float(np.max(d)) > 1e-9:
        k = int(np.argmax(d))
        res['failures'].append(dict(site='Riemann2D:fan-order',
                                    detail='pressure at (1, %.4g): %r in the ascending request, %r in the descending one (%d of %d points differ)'
                                           % (y[k], float(a[k]), float(b[k]), int(np.sum(d > 1e-9)), len(y)),
                                    case=dict(bottom_state=[1, 1, 10, 0, 1.4], top_state=[0.002, 0.01, 2.5, 0, 1.4], point=[1.0, float(y[k])])))
    return res


def guderley_batch(rng, budget, deep, replay=None):
    """Guderley is too slow for the catalogue sweep of the quick tier; this asks one solver for a few points
    before the collapse and after the reflection (two or more points behind the reflected shock in one
    request), in the given order, reversed, with a duplicate, and alone"""
    from exactpack.solvers.guderley import Guderley
    res = dict(evaluations=0, distinct_nontrivial=0, failures=[], samples=[])
    case = replay.get('case') if replay else None
    gamma, geom = (case['gamma'], case['geometry']) if case else (3.0, rng.choice([2, 3]))     # gamma = 3 solves in half a second; 1.4 takes minutes
    with warnings.catch_warnings(), _quiet(), np.errstate(all='ignore'):
        warnings.simplefilter('ignore')
        s = Guderley(gamma=gamma, geometry=geom)
        for t in (1.0 + 0.5 * rng.random(), -0.5):
            r = np.array(sorted(rng.uniform(0.05, 0.95) for _ in range(5)))
            if case:
                t, r = case['t'], np.array(case['r'])
            a = s(r, t)
            forms = [('reversed', s(r[::-1].copy(), t), lambda k: len(r) - 1 - k),
                     ('duplicated', s(np.concatenate([r[:1], r]), t), lambda k: k + 1)]
            for k in (1, 3):
                forms.append(('alone', s(r[k:k + 1], t), (lambda kk: (lambda k_: 0 if k_ == kk else None))(k)))
            res['evaluations'] += 1 + len(forms)
            res['distinct_nontrivial'] += 1
            if not res['samples']:
                res['samples'].append(dict(gamma=gamma, geometry=geom, t=t, r=r.tolist()))
            for kind, b, idx in forms:
                for nm in a.dtype.names:
                    for k in range(len(r)):
                        j = idx(k)
                        if j is None:
                            continue
                        if not _same(a[nm][k], b[nm][j], 1e-9):
                            if not res['failures']:
                                res['failures'].append(dict(
                                    site='Guderley:batch',
                                    detail='field %s at r=%r, t=%r: %r in the request as given, %r in the %s request'
                                           % (nm, float(r[k]), t, float(a[nm][k]), float(b[nm][j]), kind),
                                    case=dict(gamma=gamma, geometry=geom, t=t, r=r.tolist())))
            if case:
                break
    return res


def coord_major_instances(rng, budget, deep, replay=None):
    """Rectangle and Hutchens2 take coordinate-major (2, N) arrays (a recorded C05 finding), so the catalogue sweep skips
    them.  Here: an instance with other parameters is used on the same grid first; the instance under test must then
    return what a fresh instance returns on the grid moved by a relative 1e-12 (a class-level memo keyed by the grid —
    seeded C14-9 — is hit by the former and not by the latter); also the same grid twice and a permuted grid"""
    from exactpack.solvers.heat import Rectangle, Hutchens2
    res = dict(evaluations=0, distinct_nontrivial=0, failures=[], samples=[])
    jobs = [('Rectangle', Rectangle, lambda: dict(Ttop=rng.uniform(0.5, 3.0), b=rng.choice([1.0, 2.0, 3.0]), Nsum=rng.choice([20, 40]))),
            ('Hutchens2', Hutchens2, lambda: dict(Nsum=rng.choice([20, 40])))]
    with warnings.catch_warnings(), _quiet(), np.errstate(all='ignore'):
        warnings.simplefilter('ignore')
        for name, C, draw in jobs:
            try:
                kw1, kw2 = draw(), draw()
                kw1 = {k: v for k, v in kw1.items() if k in C.parameters}
                kw2 = {k: v for k, v in kw2.items() if k in C.parameters}
                n = rng.randint(3, 7)
                G = np.array([[rng.uniform(0.1, 0.9) for _ in range(n)], [rng.uniform(0.1, 0.9) for _ in range(n)]])
                t = rng.uniform(0.05, 0.5)
                C(**kw1)(G, t)
                b = C(**kw2)
                rb = b(G, t)
                ref = C(**kw2)(G * (1.0 + 1e-12), t)
                again = b(G, t)
                perm = list(range(n))
                rng.shuffle(perm)
                rp = b(G[:, perm], t)
            except Exception:
                continue
            res['evaluations'] += 4
            res['distinct_nontrivial'] += 1
            if not res['samples']:
                res['samples'].append(dict(cls=name, kwargs_first=kw1, kwargs=kw2, n=n, t=t))
            for nm in rb.dtype.names:
                x, y, z, w = (np.asarray(v[nm], dtype=float) for v in (rb, ref, again, rp))
                if x.shape != y.shape:
                    continue
                # temperatures of order one (boundary values 0.5 ... 3); a request far from the heated side returns 1e-10, which
                # a grid moved by 1e-12 changes by 1e-7 RELATIVE (cancelling series): the scale is the problem's, not the value's
                sc = max(float(np.nanmax(np.abs(y))), 1.0)
                if nm not in rb.dtype.names[:2] and np.any(np.abs(x - y) > 1e-7 * sc):
                    res['failures'].append(dict(site='%s:other-instance-first' % name,
                                                detail='field %s: %r after an instance with %r was asked for the same grid, %r from a '
                                                       'fresh instance on the grid moved by 1e-12' % (nm, x.tolist()[:3], kw1, y.tolist()[:3]),
                                                case=dict(cls=name, kwargs_first=kw1, kwargs=kw2)))
                    break
                if np.any(np.abs(x - z) > 1e-13 * sc) or (len(w) == n and np.any(np.abs(x[perm] - w) > 1e-12 * sc)):
                    res['failures'].append(dict(site='%s:batch' % name, detail='field %s changes on a repeated or permuted request' % nm,
                                                case=dict(cls=name, kwargs=kw2)))
                    break
    return res


def shared_solver(rng, budget, deep, replay=None):
    """class-level mutable attribute: configuring one black-box-Noh object must not change another"""
    from exactpack.solvers.nohblackboxeos import NohBlackBoxEos
    from exactpack.solvers.nohblackboxeos.equations_of_state.eos_library import ideal_gas_eos
    res = dict(evaluations=1, distinct_nontrivial=1, failures=[], samples=[dict(op='b.set_new_solver_tolerance(1e-3)')])
    with _quiet():
        a = NohBlackBoxEos(ideal_gas_eos())
        b = NohBlackBoxEos(ideal_gas_eos())
        before = a.solver.tolerance if hasattr(a.solver, 'tolerance') else None
        b.set_new_solver_tolerance(1e-3)
        after = a.solver.tolerance if hasattr(a.solver, 'tolerance') else None
    if a.solver is b.solver and before != after:
        res['failures'].append(dict(site='NohBlackBoxEos:shared-solver',
                                    detail='b.set_new_solver_tolerance(1e-3) changed the Newton tolerance instance a '
                                           'solves with (%r -> %r): `solver` is one class-level object' % (before, after),
                                    case=dict(op='set_new_solver_tolerance')))
    return res


def r2d_direction_continuity(rng, budget, deep, replay=None):
    """steady 2-D Riemann problem, lineout x = 1: wherever the pressure is continuous along the lineout (fan head, fan
    interior, fan tail, slip line) the flow DIRECTION atan2(v, u) is continuous too; only a shock turns the flow
    discontinuously, and there the pressure jumps as well.  Independent of the recorded Prandtl-Meyer defect (the coded
    turning is used consistently).  Added for seeded C19-10 (degrees added to radians inside a fan attached to an
    inclined stream: the direction jumps at the fan head and tail)."""
    from exactpack.solvers.riemann2D_2section_steadystate.ep_riemann2D_2section_steadystate import IGEOS_Solver
    res = dict(evaluations=0, distinct_nontrivial=0, failures=[], samples=[])
    t0 = time.time()
    k = 0
    with warnings.catch_warnings(), _quiet(), np.errstate(all='ignore'):
        warnings.simplefilter('ignore')
        while True:
            if replay is not None:
                case = replay.get('case', replay)
            else:
                th = rng.choice([0.0, rng.uniform(-15.0, 15.0), rng.uniform(-15.0, 15.0)])
                hi = [1.0, 1.0, rng.uniform(2.0, 6.0), th, rng.choice([1.4, 5. / 3.])]
                lo = [rng.uniform(0.08, 0.6), rng.uniform(0.1, 0.8), rng.uniform(2.0, 6.0), th, rng.choice([1.4, 5. / 3.])]
                case = dict(bottom_state=hi, top_state=lo) if rng.random() < 0.5 else dict(bottom_state=lo, top_state=hi)
            k += 1
            try:
                s = IGEOS_Solver(bottom_state=list(case['bottom_state']), top_state=list(case['top_state']))
                y = np.linspace(-1.5, 1.5, 1501)
                sol = s(np.stack([np.ones_like(y), y], axis=1), 1.0)
                p = np.asarray(sol['pressure'], dtype=float)
                phi = np.arctan2(np.asarray(sol['y_velocity'], dtype=float), np.asarray(sol['x_velocity'], dtype=float))
            except Exception:
                p = None
            if p is not None and np.all(np.isfinite(p)) and np.all(np.isfinite(phi)):
                res['evaluations'] += 1
                res['distinct_nontrivial'] += 1
                if not res['samples']:
                    res['samples'].append(case)
                dp = np.abs(np.diff(p)) / np.maximum(p[1:], p[:-1])
                dphi = np.abs(np.diff(phi))
                bad = np.where((dp < 0.02) & (dphi > 0.02))[0]
                if len(bad) and not res['failures']:
                    i = int(bad[0])
                    res['failures'].append(dict(
                        site='Riemann2D:direction-jumps-where-pressure-is-continuous',
                        detail='at y = %.4f on x = 1 the flow direction changes by %.4f rad between neighbouring points while the '
                               'pressure changes by %.2e relative (%d such places)' % (y[i], float(dphi[i]), float(dp[i]), len(bad)),
                        case=case))
            if replay is not None or (time.time() - t0 > budget and k >= 2) or k > 400:
                break
    return res
