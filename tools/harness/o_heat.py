"""Heat conduction family — oracles on the REAL code and ties of the hand model / function models.

Oracles (tests that support the proofs and look for failing inputs; never a substitute):
  finite-difference residual of the heat equation (step halving), one-sided boundary differences,
  t -> 0+ at increasing Nsum, large-t limit, r -> 0 limit, route agreement (C07), change of units (C08),
  rejection / finiteness (C20).
Ties: the hand model EPV/Model/HeatSeries.lean (through the line protocol) and the Float twins of the generated
function models against the real Rod1D / sandwich / Hutchens / Rectangle / CylindricalSandwich objects on random
parameters, positions, times and Nsum.  Relative tolerance 1e-10 (bit-level agreement is not required: the
summation order inside a term group may differ).

Site strings (stable identities of failures):  '<Class>:pde', '<Class>:bc', '<Class>:initial', '<Class>:large-t',
'Hutchens1:r=0', 'Hutchens2:accumulator', 'Hutchens2:radial-bc', 'Hutchens2:pde', 'Rod1D:robin-nan',
'Rod1D:robin-static', 'Rod1D:robin-initial', 'Rod1D:robin-units', 'CylindricalSandwich:pde',
'CylindricalSandwich:bc-theta', 'Rectangle:side-bc'."""
import math
import warnings

import numpy as np

from . import oracle as O
from . import lean_io
from .lean_io import bits

ROD = 'exactpack.solvers.heat.rod1d:Rod1D'
SANDWICH = {'PlanarSandwich': 'exactpack.solvers.heat.planar_sandwich:PlanarSandwich',
            'PlanarSandwichHot': 'exactpack.solvers.heat.planar_sandwich_hot:PlanarSandwichHot',
            'PlanarSandwichHalf': 'exactpack.solvers.heat.planar_sandwich_half:PlanarSandwichHalf'}
H1 = 'exactpack.solvers.heat.hutchens1:Hutchens1'
H2 = 'exactpack.solvers.heat.hutchens2:Hutchens2'
RECT = 'exactpack.solvers.heat.rectangle:Rectangle'
CYL = 'exactpack.solvers.heat.cylindrical_sandwich:CylindricalSandwich'

RTOL = 1e-10


# --------------------------------------------------------------------------
# generators
# --------------------------------------------------------------------------

def _nz(rng, lo=0.3, hi=3.0):
    return rng.choice([-1.0, 1.0]) * rng.uniform(lo, hi)


def rod_params(rng, bc, N=None):
    """admissible Rod1D parameters for the special case bc in 1..4 (BC2 with equal end fluxes)"""
    a1, b1, a2, b2 = {1: (_nz(rng), 0.0, _nz(rng), 0.0), 2: (0.0, _nz(rng), 0.0, _nz(rng)),
                      3: (_nz(rng), 0.0, 0.0, _nz(rng)), 4: (0.0, _nz(rng), _nz(rng), 0.0)}[bc]
    g1, g2 = rng.uniform(-3, 3), rng.uniform(-3, 3)
    if bc == 2:
        b2 = b1
        g2 = g1
    return dict(Nsum=N if N is not None else rng.choice([1, 2, 3, 5, 12, 40]), kappa=rng.uniform(0.2, 3.0),
                L=rng.uniform(0.5, 4.0), TL=rng.uniform(-3, 3), TR=rng.uniform(-3, 3),
                alpha1=a1, beta1=b1, gamma1=g1, alpha2=a2, beta2=b2, gamma2=g2)


def robin_params(rng, N=None, good=True):
    """general Robin coefficients; `good` draws from the neighbourhood of the suite's case
    (alpha1=1, beta1=-1, alpha2=1, beta2=2) where fsolve finds the intended roots"""
    if good:
        p = dict(alpha1=rng.uniform(0.8, 1.2), beta1=-rng.uniform(0.8, 1.2), alpha2=rng.uniform(0.8, 1.2),
                 beta2=rng.uniform(1.6, 2.4))
    else:
        p = dict(alpha1=round(rng.uniform(0.5, 2.5), 2), beta1=rng.choice([0.0, round(_nz(rng), 2)]),
                 alpha2=round(rng.uniform(0.5, 2.5), 2), beta2=round(_nz(rng, 0.5, 2.5), 2))
    p.update(Nsum=N if N is not None else rng.choice([4, 8, 12]), kappa=rng.uniform(0.5, 2.0), L=rng.choice([1.0, 2.0, 3.0]),
             TL=rng.uniform(-3, 3), TR=rng.uniform(-3, 3), gamma1=rng.uniform(-2, 2), gamma2=rng.uniform(-2, 2))
    return p


def sandwich_params(rng, name, N=None):
    p = dict(Nsum=N if N is not None else rng.choice([1, 2, 3, 5, 12, 40]), kappa=rng.uniform(0.2, 3.0),
             L=rng.uniform(0.5, 4.0), TL=rng.uniform(-3, 3), TR=rng.uniform(-3, 3))
    if name == 'PlanarSandwich':
        p.update(TB=rng.uniform(-3, 3), TT=rng.uniform(-3, 3))
    elif name == 'PlanarSandwichHot':
        p.update(F=rng.uniform(-3, 3))
    else:
        p.update(TB=rng.uniform(-3, 3), FT=rng.uniform(-3, 3))
    return p


def sandwich_to_rod(name, p):
    q = {k: p[k] for k in ('Nsum', 'kappa', 'L', 'TL', 'TR')}
    if name == 'PlanarSandwich':
        q.update(alpha1=1.0, beta1=0.0, gamma1=p['TB'], alpha2=1.0, beta2=0.0, gamma2=p['TT'])
    elif name == 'PlanarSandwichHot':
        q.update(alpha1=0.0, beta1=1.0, gamma1=p['F'], alpha2=0.0, beta2=1.0, gamma2=p['F'])
    else:
        q.update(alpha1=1.0, beta1=0.0, gamma1=p['TB'], alpha2=0.0, beta2=1.0, gamma2=p['FT'])
    return q


def bc_of(p):
    z = (p['alpha1'] != 0, p['beta1'] == 0, p['alpha2'] != 0, p['beta2'] == 0)
    return {(True, True, True, True): 1, (False, False, False, False): 2, (True, True, False, False): 3,
            (False, False, True, True): 4}.get(z, 0)


def h1_params(rng, N=None):
    return dict(Nsum=N if N is not None else rng.choice([2, 3, 6, 15, 40]), k=rng.uniform(0.5, 2.0), cp=rng.uniform(0.5, 2.0),
                rho=rng.uniform(0.5, 2.0), b=rng.uniform(0.5, 2.0), Tb=rng.uniform(-3, 5), T0=rng.uniform(-3, 5))


def rect_params(rng, N=None):
    return dict(Nsum=N if N is not None else rng.choice([2, 3, 5, 9]), kappa=rng.uniform(0.3, 2.0), a=rng.uniform(0.8, 3.0),
                b=rng.uniform(0.8, 3.0), Ttop=rng.uniform(0.3, 3.0))


def h2_params(rng, N=None):
    return dict(Nsum=N if N is not None else rng.choice([1, 2, 3, 6, 12]), k=rng.uniform(0.5, 2.0), g0=rng.uniform(-2.0, 2.0),
                Tb=rng.uniform(1, 5), T0=rng.uniform(0, 3), TL=rng.uniform(0, 3), b=rng.uniform(0.5, 1.5), L=rng.uniform(1.0, 3.0))


# --------------------------------------------------------------------------
# evaluation of the real code
# --------------------------------------------------------------------------

_CACHE = {}


def solver(clspath, params):
    key = (clspath, tuple(sorted(params.items())))
    s = _CACHE.get(key)
    if s is None:
        if len(_CACHE) > 64:
            _CACHE.clear()
        with warnings.catch_warnings():
            warnings.simplefilter('ignore')
            s = O.construct(clspath, params)
        _CACHE[key] = s
    return s


def T1(clspath, params, xs, t):
    """temperatures of a 1-D solver at the points xs"""
    s = solver(clspath, params)
    with warnings.catch_warnings():
        warnings.simplefilter('ignore')
        with np.errstate(all='ignore'):
            return [float(v) for v in s(np.array(xs, dtype=float), t)['temperature']]


def T2(clspath, params, pts, t):
    """temperatures of a 2-D heat solver (points given the way these solvers take them: a pair of arrays)"""
    s = solver(clspath, params)
    a = np.array([[p[0] for p in pts]], dtype=float)
    b = np.array([[p[1] for p in pts]], dtype=float)
    with warnings.catch_warnings():
        warnings.simplefilter('ignore')
        with np.errstate(all='ignore'):
            sol = s((a, b), t)
    return [float(v) for v in np.asarray(sol['temperature']).reshape(-1)]


def kmax(p):
    return (p['Nsum'] + 1) * math.pi / p['L']


# --------------------------------------------------------------------------
# C14 oracles: 1-D rod family
# --------------------------------------------------------------------------

def _heat_residual_1d(f, kappa, x, t, hx, ht):
    """central differences; returns (residual, scale)"""
    v = f([x - hx, x, x + hx], t)
    vt = f([x], t + ht)[0], f([x], t - ht)[0]
    Txx = (v[0] - 2 * v[1] + v[2]) / hx ** 2
    Tt = (vt[0] - vt[1]) / (2 * ht)
    return Tt - kappa * Txx, abs(Tt) + abs(kappa * Txx) + _noise(v[1], abs(kappa) / hx ** 2, 1 / ht)


def _noise(T, *rates):
    """round-off floor of a difference quotient: eps (|T| + 1) / step, scaled so that `tol * scale` stays above it"""
    return 1e-11 * (abs(T) + 1.0) * sum(rates) / 2e-4


def _confirmed(res_at, tol):
    """step halving: a residual counts only if it does not shrink like a truncation error"""
    r1, s1 = res_at(1.0)
    if not math.isfinite(r1) or abs(r1) <= tol * s1:
        return None
    r2, s2 = res_at(0.5)
    if not math.isfinite(r2) or abs(r2) <= tol * s2:
        return None
    r3, s3 = res_at(0.25)
    if not math.isfinite(r3) or abs(r3) <= tol * s3 or abs(r3) < 0.45 * abs(r2) < 0.45 * 0.45 * abs(r1):
        return None
    return r3, s3


def rod_cases(rng, robin_share=0.15):
    u = rng.random()
    if u < robin_share:
        return ROD, robin_params(rng), 'Rod1D'
    if u < 0.6:
        return ROD, rod_params(rng, rng.choice([1, 2, 3, 4])), 'Rod1D'
    nm = rng.choice(sorted(SANDWICH))
    return SANDWICH[nm], sandwich_params(rng, nm), nm


def _gen_rod_point(rng):
    cls, p, nm = rod_cases(rng)
    L = p['L']
    tau = rng.uniform(0.02, 0.5)
    if rng.random() < 0.5 and 'kappa' in p:
        # slow diffusion at early dimensionless time: k_n^2 t is large while kappa k_n^2 t is not, so a
        # cut-off or scaling that forgets kappa shows (seeded C14-4 / C08-4 were invisible at kappa t ~ L^2)
        p['kappa'] = 10 ** rng.uniform(-2.3, 0.5)
        tau = 10 ** rng.uniform(-2.3, -0.3)
    return dict(cls=cls, name=nm, params=p, x=rng.uniform(0.1, 0.9) * L, t=tau * L * L / p['kappa'])


def _chk_rod_pde(c):
    p = c['params']
    f = lambda xs, t: T1(c['cls'], p, xs, t)
    try:
        f([c['x']], c['t'])
    except Exception:
        return None
    km = kmax(p)
    hx0, ht0 = 0.02 / km, 0.02 / (p['kappa'] * km * km)
    bad = _confirmed(lambda s: _heat_residual_1d(f, p['kappa'], c['x'], c['t'], hx0 * s, ht0 * s), 2e-4)
    if bad:
        return dict(site='%s:pde' % c['name'], detail='x=%r t=%r residual=%r scale=%r' % (c['x'], c['t'], bad[0], bad[1]))
    return None


rod_pde = O.make(_gen_rod_point, _chk_rod_pde, 'c14.rod_pde')


def _bc_values(cls, p, t):
    """(alpha1 T + beta1 T_x)(0), (alpha2 T + beta2 T_x)(L) by second-order one-sided differences, two step sizes"""
    L = p['L']
    q = sandwich_to_rod(None, p) if False else p
    out = []
    for h in (2e-3 / kmax(p), 1e-3 / kmax(p)):
        v = T1(cls, p, [0.0, h, 2 * h, L - 2 * h, L - h, L], t)
        dl = (-3 * v[0] + 4 * v[1] - v[2]) / (2 * h)
        dr = (3 * v[5] - 4 * v[4] + v[3]) / (2 * h)
        out.append((v[0], dl, v[5], dr))
    return out


def _gen_rod_bc(rng):
    cls, p, nm = rod_cases(rng, robin_share=0.0)
    return dict(cls=cls, name=nm, params=p, t=rng.uniform(0.02, 0.5) * p['L'] ** 2 / p['kappa'])


def _gen_robin_bc(rng):
    if rng.random() < 0.1:                                 # parameters of test_heat_rod1d_regression8
        p = dict(alpha1=1.0, beta1=-1.0, gamma1=1.2, alpha2=1.0, beta2=2.0, gamma2=2.3, L=2.0, Nsum=20, kappa=1.0, TL=3.0, TR=3.0)
    else:
        p = robin_params(rng)
    return dict(cls=ROD, name='Rod1D', params=p, t=rng.uniform(0.02, 0.5) * p['L'] ** 2 / p['kappa'])


def _chk_rod_bc(c):
    p = c['params']
    q = sandwich_to_rod(c['name'], p) if c['name'] in SANDWICH else p
    try:
        vals = _bc_values(c['cls'], p, c['t'])
    except Exception:
        return None
    if not all(math.isfinite(x) for v in vals for x in v):
        return None                                   # C20's business (robin_nan)
    res = []
    for (T0, dl, TLv, dr) in vals:
        res.append((q['alpha1'] * T0 + q['beta1'] * dl - q['gamma1'], q['alpha2'] * TLv + q['beta2'] * dr - q['gamma2']))
    scale = 1.0 + max(abs(q[k]) for k in ('gamma1', 'gamma2', 'TL', 'TR')) * max(1.0, abs(q['beta1']), abs(q['beta2'])) * kmax(p)
    for i, side in enumerate(('x=0', 'x=L')):
        r1, r2 = res[0][i], res[1][i]
        if abs(r2) > 1e-6 * scale and abs(r2) > 0.45 * abs(r1):
            robin = bc_of(q) == 0
            return dict(site='Rod1D:robin-static' if robin else '%s:bc' % c['name'],
                        detail='%s: alpha T + beta T_x - gamma = %r (declared 0), L=%r' % (side, r2, p['L']))
    return None


rod_boundary = O.make(_gen_rod_bc, _chk_rod_bc, 'c14.rod_boundary')
robin_boundary = O.make(_gen_robin_bc, _chk_rod_bc, 'c14.robin_boundary')


def _static(q, x):
    """the steady solution with the declared boundary values (computed here independently of the code)"""
    bc = bc_of(q)
    L = q['L']
    if bc == 1:
        a, b = q['gamma1'] / q['alpha1'], q['gamma2'] / q['alpha2']
        return a + (b - a) * x / L
    if bc == 2:
        F = q['gamma1'] / q['beta1']
        return F * x + (q['TL'] + q['TR'] - F * L) / 2        # mean temperature is conserved
    if bc == 3:
        return q['gamma1'] / q['alpha1'] + q['gamma2'] / q['beta2'] * x
    if bc == 4:
        F = q['gamma1'] / q['beta1']
        return q['gamma2'] / q['alpha2'] - F * (L - x)
    # Robin: solve the 2x2 system for T1 + s x
    a1, b1, c1, a2, b2, c2 = (q[k] for k in ('alpha1', 'beta1', 'gamma1', 'alpha2', 'beta2', 'gamma2'))
    det = a1 * (a2 * L + b2) - a2 * b1
    Ta = (c1 * (a2 * L + b2) - b1 * c2) / det
    s = (a1 * c2 - a2 * c1) / det
    return Ta + s * x


def _gen_large_t(rng):
    u = rng.random()
    if u < 0.7:
        cls, p, nm = ROD, rod_params(rng, rng.choice([1, 2, 3, 4]), N=rng.choice([3, 10, 40])), 'Rod1D'
    else:
        nm = rng.choice(sorted(SANDWICH))
        cls, p = SANDWICH[nm], sandwich_params(rng, nm, N=rng.choice([3, 10, 40]))
    return dict(cls=cls, name=nm, params=p, xs=[rng.uniform(0, 1) * p['L'] for _ in range(4)])


def _chk_large_t(c):
    p = c['params']
    q = sandwich_to_rod(c['name'], p) if c['name'] in SANDWICH else p
    t = 60.0 * p['L'] ** 2 / p['kappa']                # exp(-kappa (pi/2L)^2 t) = exp(-148)
    try:
        v = T1(c['cls'], p, c['xs'], t)
    except Exception:
        return None
    for x, y in zip(c['xs'], v):
        w = _static(q, x)
        if abs(y - w) > 1e-9 * (1 + abs(w)):
            return dict(site='%s:large-t' % c['name'], detail='x=%r T=%r steady=%r' % (x, y, w))
    return None


rod_large_t = O.make(_gen_large_t, _chk_large_t, 'c14.rod_large_t')


def _gen_robin_initial(rng):
    p = robin_params(rng, N=40)
    return dict(cls=ROD, name='Rod1D', params=p, x=rng.uniform(0.25, 0.75) * p['L'])


def _gen_initial(rng):
    u = rng.random()
    if u < 0.7:
        cls, p, nm = ROD, rod_params(rng, rng.choice([1, 2, 3, 4]), N=40), 'Rod1D'
    else:
        nm = rng.choice(sorted(SANDWICH))
        cls, p = SANDWICH[nm], sandwich_params(rng, nm, N=40)
    return dict(cls=cls, name=nm, params=p, x=rng.uniform(0.25, 0.75) * p['L'])


def _chk_initial(c):
    """t -> 0+ at increasing Nsum: at t = 1e-3 L^2/kappa the interior value is within 1e-6 of the initial profile
    once Nsum resolves the diffusion length (N = 160, 320 must both be there and must not differ)"""
    p = dict(c['params'])
    L = p['L']
    t = 1e-3 * L * L / p['kappa']
    want = p['TL'] + (p['TR'] - p['TL']) * c['x'] / L
    errs = []
    for N in (40, 160, 320):
        p['Nsum'] = N
        try:
            v = T1(c['cls'], p, [c['x']], t)[0]
        except Exception:
            return None
        if not math.isfinite(v):
            return None
        errs.append(abs(v - want))
    scale = 1 + abs(p['TL']) + abs(p['TR'])
    if errs[2] > 1e-6 * scale:
        q = sandwich_to_rod(c['name'], c['params']) if c['name'] in SANDWICH else c['params']
        robin = bc_of(q) == 0
        return dict(site='Rod1D:robin-initial' if robin else '%s:initial' % c['name'],
                    detail='x=%r t=%r |T - initial| = %r, %r, %r at Nsum = 40, 160, 320' % (c['x'], t, errs[0], errs[1], errs[2]))
    return None


initial_limit = O.make(_gen_initial, _chk_initial, 'c14.initial_limit')
robin_initial = O.make(_gen_robin_initial, _chk_initial, 'c14.robin_initial')


def _gen_robin_nan(rng):
    if rng.random() < 0.1:
        p = dict(alpha1=1.71, beta1=0.0, alpha2=1.28, beta2=-1.15)          # the recorded witness
    else:
        p = robin_params(rng, N=12, good=False)
        p = {k: p[k] for k in ('alpha1', 'beta1', 'alpha2', 'beta2')}
    return dict(params=p)


def _chk_robin_nan(c):
    p = c['params']
    if bc_of(p) != 0:
        return None
    try:
        s = solver(ROD, dict(p, Nsum=12))
        v = T1(ROD, dict(p, Nsum=12), [0.3 * s.L, 0.7 * s.L], 0.1)
    except ZeroDivisionError as ex:
        return dict(site='Rod1D:robin-nan', detail='ZeroDivisionError for %r' % (p,))
    except Exception:
        return None
    if not all(math.isfinite(x) for x in v):
        zero = [int(n) for n in range(1, 12) if s.kn[n] == 0]
        return dict(site='Rod1D:robin-nan', detail='NaN for %r; fsolve returned mu = 0 for n in %r' % (p, zero))
    return None


robin_nan = O.make(_gen_robin_nan, _chk_robin_nan, 'c14.robin_nan')


# --------------------------------------------------------------------------
# C14 oracles: Hutchens 1
# --------------------------------------------------------------------------

def _gen_h1(rng):
    p = h1_params(rng)
    a = p['k'] / (p['rho'] * p['cp'])
    return dict(params=p, r=rng.uniform(0.1, 0.9) * p['b'], t=rng.uniform(0.02, 0.5) * p['b'] ** 2 / a)


def _chk_h1_pde(c):
    p = c['params']
    a = p['k'] / (p['rho'] * p['cp'])
    f = lambda rs, t: T1(H1, p, rs, t)
    km = p['Nsum'] * math.pi / p['b']

    def res(s):
        hx, ht = 0.02 / km * s, 0.02 / (a * km * km) * s
        r, t = c['r'], c['t']
        v = f([r - hx, r, r + hx], t)
        Tt = (f([r], t + ht)[0] - f([r], t - ht)[0]) / (2 * ht)
        lap = (v[0] - 2 * v[1] + v[2]) / hx ** 2 + 2 / r * (v[2] - v[0]) / (2 * hx)
        return Tt - a * lap, abs(Tt) + abs(a * lap) + _noise(v[1], a / hx ** 2, a / (hx * r), 1 / ht)
    bad = _confirmed(res, 2e-4)
    if bad:
        return dict(site='Hutchens1:pde', detail='r=%r t=%r residual=%r scale=%r' % (c['r'], c['t'], bad[0], bad[1]))
    # surface value and large-t limit
    v = f([p['b']], c['t'])[0]
    if abs(v - p['Tb']) > 1e-9 * (1 + abs(p['Tb']) + abs(p['T0'])) * p['Nsum']:
        return dict(site='Hutchens1:bc', detail='T(b,t)=%r Tb=%r' % (v, p['Tb']))
    v = f([c['r']], 60 * p['b'] ** 2 / a)[0]
    if abs(v - p['Tb']) > 1e-9 * (1 + abs(p['Tb'])):
        return dict(site='Hutchens1:large-t', detail='T=%r Tb=%r' % (v, p['Tb']))
    return None


h1_pde = O.make(_gen_h1, _chk_h1_pde, 'c14.h1_pde')


def _gen_h1_centre(rng):
    if rng.random() < 0.15:
        return dict(params={}, t=1.0)                      # iron sphere defaults, t = 1: neighbours 3.94, value 1.0
    p = h1_params(rng, N=rng.choice([10, 40, 100]))
    a = p['k'] / (p['rho'] * p['cp'])
    return dict(params=p, t=rng.uniform(0.05, 0.6) * p['b'] ** 2 / a)


def _chk_h1_centre(c):
    """the value at r = 0 against the limit of nearby values (r = b 1e-3, 1e-4, 1e-5 must agree among themselves)"""
    p = c['params']
    b = p.get('b', 1.0)
    v = T1(H1, p, [0.0, 1e-5 * b, 1e-4 * b, 1e-3 * b], c['t'])
    spread = max(abs(v[1] - v[2]), abs(v[2] - v[3]))
    if abs(v[0] - v[1]) > 1e-4 * (1 + abs(v[1])) + 20 * spread:
        return dict(site='Hutchens1:r=0', detail='T(0,t)=%r, T(r,t) for r/b = 1e-5, 1e-4, 1e-3: %r %r %r (t=%r)'
                    % (v[0], v[1], v[2], v[3], c['t']))
    return None


h1_centre = O.make(_gen_h1_centre, _chk_h1_centre, 'c14.h1_centre')


def _gen_h1_initial(rng):
    p = h1_params(rng, N=40)
    return dict(params=p, r=rng.uniform(0.2, 0.7) * p['b'])


def _chk_h1_initial(c):
    p = dict(c['params'])
    a = p['k'] / (p['rho'] * p['cp'])
    t = 1e-3 * p['b'] ** 2 / a
    errs = []
    for N in (40, 160, 320):
        p['Nsum'] = N
        errs.append(abs(T1(H1, p, [c['r']], t)[0] - p['T0']))
    if errs[2] > 1e-6 * (1 + abs(p['T0']) + abs(p['Tb'])):
        return dict(site='Hutchens1:initial', detail='r=%r |T - T0| = %r %r %r at Nsum = 40, 160, 320' % (c['r'], *errs))
    return None


h1_initial = O.make(_gen_h1_initial, _chk_h1_initial, 'c14.h1_initial')


# --------------------------------------------------------------------------
# C14 oracles: Rectangle
# --------------------------------------------------------------------------

def _gen_rect(rng):
    p = rect_params(rng)
    return dict(params=p, x=rng.uniform(0.15, 0.85) * p['a'], y=rng.uniform(0.15, 0.85) * p['b'],
                t=rng.uniform(0.02, 0.3) * min(p['a'], p['b']) ** 2 / p['kappa'])


def _chk_rect_pde(c):
    p = c['params']
    f = lambda pts, t: T2(RECT, p, pts, t)
    km = (2 * p['Nsum'] + 1) * math.pi / min(p['a'], p['b'])
    x, y, t = c['x'], c['y'], c['t']

    def res(s):
        h, ht = 0.02 / km * s, 0.02 / (p['kappa'] * km * km) * s
        v = f([(x, y), (x - h, y), (x + h, y), (x, y - h), (x, y + h)], t)
        Tt = (f([(x, y)], t + ht)[0] - f([(x, y)], t - ht)[0]) / (2 * ht)
        lap = (v[1] + v[2] + v[3] + v[4] - 4 * v[0]) / h ** 2
        return Tt - p['kappa'] * lap, abs(Tt) + abs(p['kappa']) * (abs(v[1] + v[2] - 2 * v[0]) + abs(v[3] + v[4] - 2 * v[0])) / h ** 2 \
            + _noise(v[0], 2 * p['kappa'] / h ** 2, 1 / ht)
    bad = _confirmed(res, 5e-4)
    if bad:
        return dict(site='Rectangle:pde', detail='x=%r y=%r t=%r residual=%r scale=%r' % (x, y, t, bad[0], bad[1]))
    # bottom: T = 0 ; top: the (N-1)-term sine sum of Ttop, independent of t
    v = f([(x, 0.0), (x, p['b'])], t)
    if abs(v[0]) > 1e-12 * (1 + p['Ttop']):
        return dict(site='Rectangle:bc', detail='bottom T(x,0,t)=%r' % v[0])
    top = sum(2 * p['Ttop'] * (1 - (-1) ** n) / (n * math.pi) * math.sin(n * math.pi * x / p['a']) for n in range(1, p['Nsum']))
    if abs(v[1] - top) > 1e-9 * (1 + p['Ttop']) * p['Nsum']:
        return dict(site='Rectangle:bc', detail='top T(x,b,t)=%r truncated sine series of Ttop=%r' % (v[1], top))
    return None


rect_pde = O.make(_gen_rect, _chk_rect_pde, 'c14.rect_pde')


def _gen_rect_sides(rng):
    p = rect_params(rng, N=rng.choice([3, 6, 12]))
    return dict(params=p, y=rng.uniform(0.3, 0.9) * p['b'], t=rng.uniform(0.05, 1.0) * min(p['a'], p['b']) ** 2 / p['kappa'])


def _chk_rect_sides(c):
    """declared: zero heat flux through the sides x = 0 and x = a"""
    p = c['params']
    km = (2 * p['Nsum'] + 1) * math.pi / p['a']
    fl = []
    for h in (2e-3 / km, 1e-3 / km):
        v = T2(RECT, p, [(0.0, c['y']), (h, c['y']), (2 * h, c['y'])], c['t'])
        fl.append(((-3 * v[0] + 4 * v[1] - v[2]) / (2 * h), v[0]))
    if abs(fl[1][0]) > 1e-4 * p['Ttop'] / p['a'] and abs(fl[1][0]) > 0.45 * abs(fl[0][0]):
        return dict(site='Rectangle:side-bc', detail='T_x(0,y,t)=%r (declared 0), T(0,y,t)=%r, y=%r t=%r'
                    % (fl[1][0], fl[1][1], c['y'], c['t']))
    return None


rect_sides = O.make(_gen_rect_sides, _chk_rect_sides, 'c14.rect_sides')


def _gen_rect_initial(rng):
    p = rect_params(rng, N=20)
    return dict(params=p, x=rng.uniform(0.2, 0.8) * p['a'], y=rng.uniform(0.1, 0.65) * p['b'])


def _chk_rect_initial(c):
    """t -> 0+ at increasing Nsum: the interior temperature returns to the initial value 0"""
    p = dict(c['params'])
    t = 1e-3 * min(p['a'], p['b']) ** 2 / p['kappa']
    errs = []
    for N in (20, 40, 80):
        p['Nsum'] = N
        errs.append(abs(T2(RECT, p, [(c['x'], c['y'])], t)[0]))
    # calibrated on the unchanged tree (1500 cases): above the 1e-6 floor the N = 80 truncation error is at most 4.7e-5 Ttop
    # (b >> a: the modes in y are not yet damped at this t) and falls by a factor >= 9 from N = 40 to 80, but NOT always by the
    # factor 20 demanded before (0.11 observed: a false alarm that depended on how many cases the time budget allowed)
    if errs[2] > 1e-3 * p['Ttop'] or (errs[2] > 1e-6 * p['Ttop'] and not errs[2] < 0.5 * errs[1]):
        return dict(site='Rectangle:initial', detail='x=%r y=%r t=%r |T| = %r %r %r at Nsum = 20, 40, 80' % (c['x'], c['y'], t, *errs))
    return None


rect_initial = O.make(_gen_rect_initial, _chk_rect_initial, 'c14.rect_initial')


# --------------------------------------------------------------------------
# C14 oracles: Hutchens 2, cylindrical sandwich
# --------------------------------------------------------------------------

def _gen_h2(rng):
    if rng.random() < 0.2:
        return dict(params=dict(Nsum=10), r=0.5, z=0.5)          # defaults: -370, -794, -1642 for Nsum = 10, 20, 40 ...
    p = h2_params(rng, N=rng.choice([4, 8]))
    return dict(params=p, r=rng.uniform(0.1, 0.9) * p['b'], z=rng.uniform(0.2, 0.8) * p['L'])


def _chk_h2_acc(c):
    """a truncated series must settle as Nsum grows; this one keeps growing (the running sum is added in every pass)"""
    p = dict(c['params'])
    N = p['Nsum']
    v = []
    for m in (1, 2, 4, 8):
        p['Nsum'] = N * m
        v.append(T2(H2, p, [(c['r'], c['z'])], 0)[0])
    d1, d2, d3 = abs(v[1] - v[0]), abs(v[2] - v[1]), abs(v[3] - v[2])
    if d3 > 1e-3 * (1 + abs(v[0])) and d3 > 1.5 * d2 > 1.5 * 1.5 * d1:
        return dict(site='Hutchens2:accumulator', detail='T(r=%r,z=%r) = %r, %r, %r, %r at Nsum = %d, %d, %d, %d'
                    % (c['r'], c['z'], v[0], v[1], v[2], v[3], N, 2 * N, 4 * N, 8 * N))
    return None


h2_accumulator = O.make(_gen_h2, _chk_h2_acc, 'c14.h2_accumulator')


def _chk_h2_bc(c):
    p = dict(c['params'])
    Tb, b = p.get('Tb', 5.0), p.get('b', 1.0)
    v = []
    for m in (1, 4):
        p['Nsum'] = c['params']['Nsum'] * m
        v.append(T2(H2, p, [(b, c['z'])], 0)[0])
    if abs(v[1] - Tb) > 0.05 * (1 + abs(Tb)) and abs(v[1] - Tb) > 0.5 * abs(v[0] - Tb):
        return dict(site='Hutchens2:radial-bc', detail='T(b,z=%r) = %r, %r at Nsum = %d, %d; declared Tb = %r'
                    % (c['z'], v[0], v[1], c['params']['Nsum'], 4 * c['params']['Nsum'], Tb))
    # the end faces do hold
    L = p.get('L', 2.0)
    w = T2(H2, p, [(c['r'], 0.0), (c['r'], L)], 0)
    T0, TL = p.get('T0', 2.0), p.get('TL', 1.0)
    if abs(w[0] - T0) > 1e-9 * (1 + abs(T0)) or abs(w[1] - TL) > 1e-6 * (1 + abs(TL)) * p['Nsum'] ** 2 * (1 + abs(p.get('g0', 1e13) / p.get('k', 8.4695e10))):
        return dict(site='Hutchens2:bc', detail='T(r,0)=%r T0=%r ; T(r,L)=%r TL=%r' % (w[0], T0, w[1], TL))
    return None


h2_boundary = O.make(_gen_h2, _chk_h2_bc, 'c14.h2_boundary')


def _chk_h2_pde(c):
    p = c['params']
    k, g0, L = p.get('k', 8.4695e10), p.get('g0', 1e13), p.get('L', 2.0)
    f = lambda pts: T2(H2, p, pts, 0)
    lam = (2 * p['Nsum'] + 1) * math.pi / L
    r, z = c['r'], c['z']

    def res(s):
        h = 0.05 / lam * s
        v = f([(r, z), (r - h, z), (r + h, z), (r, z - h), (r, z + h)])
        lap = (v[1] + v[2] - 2 * v[0]) / h ** 2 + (v[2] - v[1]) / (2 * h * r) + (v[3] + v[4] - 2 * v[0]) / h ** 2
        return lap + g0 / k, abs(g0 / k) + (abs(v[1] + v[2] - 2 * v[0]) + abs(v[3] + v[4] - 2 * v[0])) / h ** 2 \
            + _noise(v[0], 2 / h ** 2, 1 / (h * r))
    bad = _confirmed(res, 2e-3)
    if bad:
        pred = sum((p['Nsum'] - n) * 2 * g0 / k * math.sin((2 * n + 1) * math.pi / L * z) for n in range(p['Nsum']))
        return dict(site='Hutchens2:pde', detail='r=%r z=%r: (1/r)(r T_r)_r + T_zz + g0/k = %r (declared 0; model predicts %r)'
                    % (r, z, bad[0], pred))
    return None


h2_pde = O.make(_gen_h2, _chk_h2_pde, 'c14.h2_pde')


def _gen_cyl(rng):
    if rng.random() < 0.3:
        p = dict(Nsum=2, Msum=3)
    else:
        p = dict(Nsum=rng.choice([1, 2]), Msum=rng.choice([1, 2, 3]), kappa=rng.uniform(0.5, 1.5), T1=rng.uniform(0.5, 2.0),
                 T0=rng.choice([0.0, rng.uniform(0.2, 1.0)]))
    return dict(params=p, r=rng.uniform(0.35, 0.75), th=rng.uniform(0.3, 1.2), t=rng.uniform(0.02, 0.08))


def _chk_cyl_pde(c):
    p = c['params']
    kap = p.get('kappa', 1.0)
    f = lambda pts, t: T2(CYL, p, pts, t)
    r, th, t = c['r'], c['th'], c['t']

    def res(s):
        h, ht = 2e-3 * s, 1e-3 * s
        v = f([(r, th), (r - h, th), (r + h, th), (r, th - h), (r, th + h)], t)
        Tt = (f([(r, th)], t + ht)[0] - f([(r, th)], t - ht)[0]) / (2 * ht)
        lap = (v[1] + v[2] - 2 * v[0]) / h ** 2 + (v[2] - v[1]) / (2 * h * r) + (v[3] + v[4] - 2 * v[0]) / h ** 2 / r ** 2
        return Tt - kap * lap, abs(Tt) + abs(kap * lap) + _noise(v[0], 2 * kap / h ** 2, kap / (h * r), kap / (h * r) ** 2, 1 / ht)
    bad = _confirmed(res, 2e-3)
    if bad:
        return dict(site='CylindricalSandwich:pde', detail='r=%r theta=%r t=%r: T_t - kappa lap T = %r (scale %r)'
                    % (r, th, t, bad[0], bad[1]))
    return None


cyl_pde = O.make(_gen_cyl, _chk_cyl_pde, 'c14.cyl_pde')


def _chk_cyl_theta(c):
    p = c['params']
    T0, T1v = p.get('T0', 0.0), p.get('T1', 1.0)
    v = T2(CYL, p, [(c['r'], 0.0), (c['r'], math.pi / 2)], c['t'])
    if abs(v[0] - T0) > 1e-9 * (1 + abs(T0)):
        return dict(site='CylindricalSandwich:bc', detail='T(r,0,t)=%r declared T0=%r' % (v[0], T0))
    if abs(v[1] - T1v) > 1e-9 * (1 + abs(T1v) + abs(T0)):
        return dict(site='CylindricalSandwich:bc-theta', detail='T(r,pi/2,t)=%r declared T1=%r (T0=%r)' % (v[1], T1v, T0))
    return None


cyl_theta = O.make(_gen_cyl, _chk_cyl_theta, 'c14.cyl_theta')


# --------------------------------------------------------------------------
# C07 oracles: independent routes agree (two public calls)
# --------------------------------------------------------------------------

def _gen_sandwich_rod(rng):
    nm = rng.choice(sorted(SANDWICH))
    p = sandwich_params(rng, nm)
    return dict(name=nm, params=p, xs=[rng.uniform(0, 1) * p['L'] for _ in range(5)], t=rng.uniform(0.001, 1.0) * p['L'] ** 2 / p['kappa'])


def _chk_sandwich_rod(c):
    a = T1(SANDWICH[c['name']], c['params'], c['xs'], c['t'])
    b = T1(ROD, sandwich_to_rod(c['name'], c['params']), c['xs'], c['t'])
    for x, u, v in zip(c['xs'], a, b):
        if O.relerr(u, v, 1e-9) > 1e-12:
            return dict(site='%s:vs-Rod1D' % c['name'], detail='x=%r sandwich=%r rod=%r' % (x, u, v))
    return None


sandwich_vs_rod = O.make(_gen_sandwich_rod, _chk_sandwich_rod, 'c07.sandwich_vs_rod')


def _gen_mirror(rng):
    p = rod_params(rng, 3)
    return dict(params=p, xs=[rng.uniform(0, 1) * p['L'] for _ in range(5)], t=rng.uniform(0.001, 1.0) * p['L'] ** 2 / p['kappa'])


def _chk_mirror(c):
    p = c['params']
    q = dict(p, TL=p['TR'], TR=p['TL'], alpha1=p['alpha2'], beta1=p['beta2'], gamma1=-p['gamma2'],
             alpha2=p['alpha1'], beta2=p['beta1'], gamma2=p['gamma1'])
    a = T1(ROD, p, c['xs'], c['t'])
    b = T1(ROD, q, [p['L'] - x for x in c['xs']], c['t'])
    scale = 1 + abs(p['TL']) + abs(p['TR']) + abs(p['gamma1']) + abs(p['gamma2'] * p['L'])
    for x, u, v in zip(c['xs'], a, b):
        if abs(u - v) > 1e-11 * scale * p['Nsum']:
            return dict(site='Rod1D:BC3-vs-mirror-BC4', detail='x=%r BC3=%r BC4(L-x)=%r' % (x, u, v))
    return None


bc3_vs_bc4 = O.make(_gen_mirror, _chk_mirror, 'c07.bc3_vs_bc4')


# --------------------------------------------------------------------------
# C08 oracle: change of units on the public calls
# --------------------------------------------------------------------------

def _scales(rng):
    return dict(l=rng.uniform(0.2, 5.0), tau=rng.uniform(0.2, 5.0), th=rng.uniform(0.2, 5.0))


def _gen_units(rng):
    if rng.random() < 0.6:
        return dict(kind='rod', params=rod_params(rng, rng.choice([1, 2, 3, 4])), scale=_scales(rng))
    nm = rng.choice(sorted(SANDWICH))
    return dict(kind=nm, params=sandwich_params(rng, nm), scale=_scales(rng))


def _gen_units_h1(rng):
    return dict(kind='h1', params=h1_params(rng), scale=_scales(rng), M=rng.uniform(0.2, 5.0))


def _gen_units_robin(rng):
    return dict(kind='robin', params=robin_params(rng, N=8), scale=_scales(rng))


def _chk_units(c):
    l, tau, th = c['scale']['l'], c['scale']['tau'], c['scale']['th']
    p = c['params']
    if c['kind'] == 'h1':
        M = c['M']
        q = dict(p, k=p['k'] * M * l / (tau ** 3 * th), cp=p['cp'] * l ** 2 / (tau ** 2 * th), rho=p['rho'] * M / l ** 3,
                 b=p['b'] * l, Tb=p['Tb'] * th, T0=p['T0'] * th)
        a = p['k'] / (p['rho'] * p['cp'])
        xs, t = [0.0, 0.3 * p['b'], 0.8 * p['b'], p['b']], 0.2 * p['b'] ** 2 / a
        u = T1(H1, p, xs, t)
        v = T1(H1, q, [x * l for x in xs], t * tau)
        name = 'Hutchens1'
    else:
        cls = SANDWICH.get(c['kind'], ROD)
        q = dict(p)
        q['kappa'] = p['kappa'] * l * l / tau
        q['L'] = p['L'] * l
        for k in ('TL', 'TR', 'gamma1', 'gamma2', 'TB', 'TT'):
            if k in q:
                q[k] = p[k] * th
        for k in ('beta1', 'beta2'):
            if k in q:
                q[k] = p[k] * l
        for k in ('F', 'FT'):
            if k in q:
                q[k] = p[k] * th / l
        xs, t = [0.0, 0.3 * p['L'], 0.8 * p['L'], p['L']], 0.1 * p['L'] ** 2 / p['kappa']
        try:
            u = T1(cls, p, xs, t)
            v = T1(cls, q, [x * l for x in xs], t * tau)
        except Exception:
            return None
        name = c['kind'] if c['kind'] in SANDWICH else 'Rod1D'
    if not all(map(math.isfinite, u + v)):
        return None
    scale = max(1e-6, max(abs(x) for x in u))
    for x, a_, b_ in zip(xs, u, v):
        if abs(b_ - th * a_) > 1e-9 * th * scale * (1 + p['Nsum']):
            return dict(site='Rod1D:robin-units' if c['kind'] == 'robin' else '%s:units' % name,
                        detail='x=%r: T(scaled)=%r, theta*T=%r (l=%r tau=%r theta=%r)' % (x, b_, th * a_, l, tau, th))
    return None


units = O.make(_gen_units, _chk_units, 'c08.heat_units')
units_h1 = O.make(_gen_units_h1, _chk_units, 'c08.heat_units_h1')
units_robin = O.make(_gen_units_robin, _chk_units, 'c08.heat_units_robin')


# --------------------------------------------------------------------------
# C20 oracle: rejection and finiteness
# --------------------------------------------------------------------------

def _gen_accept(rng):
    u = rng.random()
    if u < 0.25:
        p = rod_params(rng, 2)
        p['gamma2'] = p['gamma1'] + rng.choice([-1, 1]) * rng.uniform(0.1, 2.0)       # unequal fluxes: documented restriction
        return dict(kind='bc2-unequal', cls=ROD, params=p)
    if u < 0.6:
        return dict(kind='valid', cls=ROD, params=rod_params(rng, rng.choice([1, 2, 3, 4])))
    if u < 0.8:
        nm = rng.choice(sorted(SANDWICH))
        return dict(kind='valid', cls=SANDWICH[nm], params=sandwich_params(rng, nm))
    if u < 0.9:
        return dict(kind='valid1', cls=H1, params=h1_params(rng))
    return dict(kind='valid2', cls=RECT, params=rect_params(rng))


def _chk_accept(c):
    p = c['params']
    name = c['cls'].split(':')[1]
    try:
        if c['kind'] == 'valid2':
            v = T2(c['cls'], p, [(0.0, 0.0), (0.4 * p['a'], 0.6 * p['b']), (p['a'], p['b'])], 0.1)
        elif c['kind'] == 'valid1':
            v = T1(c['cls'], p, [0.0, 0.5 * p['b'], p['b']], 0.1)
        else:
            v = T1(c['cls'], p, [0.0, 0.37 * p['L'], p['L']], 0.1)
    except ValueError as ex:
        if c['kind'] == 'bc2-unequal':
            return None
        return dict(site='%s:rejects-valid' % name, detail='ValueError(%s) for %r' % (ex, p))
    except Exception as ex:
        return dict(site='%s:wrong-exception' % name, detail='%s for %r' % (type(ex).__name__, p))
    if c['kind'] == 'bc2-unequal':
        return dict(site='Rod1D:accepts-unequal-fluxes', detail='returned %r for %r' % (v, p))
    if not all(map(math.isfinite, v)):
        return dict(site='%s:nonfinite' % name, detail='%r for %r' % (v, p))
    return None


accepts = O.make(_gen_accept, _chk_accept, 'c20.heat_accepts')


# --------------------------------------------------------------------------
# ties (hand model and function models vs the real code), all lines in ONE driver run
# --------------------------------------------------------------------------

def _close(a, b, floor):
    if not (math.isfinite(a) and math.isfinite(b)):
        return (not math.isfinite(a)) and (not math.isfinite(b))
    return abs(a - b) <= RTOL * max(abs(a), abs(b), floor)


class _Batch(object):
    """every tie contributes lines; they are evaluated by one `lake env lean --run Main.lean`"""

    def __init__(self):
        self.key = None
        self.groups = {}

    def get(self, rng, deep):
        key = (id(rng), deep)
        if self.key != key:
            self.key = key
            self.groups = {}
            n = 120 if deep else 25
            lines = []
            for name, fn in BUILDERS:
                cases = fn(rng, n)
                self.groups[name] = [len(lines), cases]
                lines += [c['line'] for c in cases]
            outs = lean_io.run_lines(lines) if lines else []
            for name, (start, cases) in self.groups.items():
                for i, c in enumerate(cases):
                    c['out'] = outs[start + i]
        return self.groups


_BATCH = _Batch()


def _manifest():
    import json
    import os
    return json.load(open(os.path.join(lean_io.LEAN_DIR, 'EPV', 'Gen', 'gen_manifest.json')))


def _twin_line(model, vals, man):
    e = man[model]
    order = e['params'] + e['pvars'] + ([e['tvar']] if e['tvar'] else [])
    return model + ' ' + ' '.join(bits(vals[a]) for a in order)


def _rod_line(bc, p, x, t):
    return 'heat.rod %d %d ' % (bc, p['Nsum']) + ' '.join(bits(p[k]) for k in (
        'kappa', 'L', 'TL', 'TR', 'alpha1', 'beta1', 'gamma1', 'alpha2', 'beta2', 'gamma2')) + ' ' + bits(x) + ' ' + bits(t)


def _b_rod(rng, n):
    """hand model `heat.rod` (own coefficient formulas + sum) vs real Rod1D, BC1..BC4"""
    out = []
    for _ in range(3 * n):
        bc = rng.choice([1, 2, 3, 4])
        p = rod_params(rng, bc, N=rng.choice([0, 1, 2, 3, 5, 17, 60]))
        x, t = rng.uniform(0, 1) * p['L'], rng.uniform(0.0005, 1.0) * p['L'] ** 2 / p['kappa']
        out.append(dict(line=_rod_line(bc, p, x, t), want=[T1(ROD, p, [x], t)[0]], floor=1e-3,
                        what=dict(cls='Rod1D', params=p, x=x, t=t)))
    return out


def _b_sandwich(rng, n):
    """hand model at the mapped parameters vs the real sandwich classes"""
    out = []
    for _ in range(2 * n):
        nm = rng.choice(sorted(SANDWICH))
        p = sandwich_params(rng, nm, N=rng.choice([1, 2, 3, 5, 17, 60]))
        q = sandwich_to_rod(nm, p)
        x, t = rng.uniform(0, 1) * p['L'], rng.uniform(0.0005, 1.0) * p['L'] ** 2 / p['kappa']
        out.append(dict(line=_rod_line(bc_of(q), q, x, t), want=[T1(SANDWICH[nm], p, [x], t)[0]], floor=1e-3,
                        what=dict(cls=nm, params=p, x=x, t=t)))
    return out


def _b_series(rng, n):
    """the summation loop alone (`heat.series`) with the coefficient arrays of the real object — all five cases"""
    out = []
    for _ in range(2 * n):
        if rng.random() < 0.5:
            p = robin_params(rng, N=rng.choice([2, 4, 9]))
        else:
            p = rod_params(rng, rng.choice([1, 2, 3, 4]), N=rng.choice([1, 3, 9]))
        s = solver(ROD, p)
        if not (np.all(np.isfinite(s.kn)) and np.all(np.isfinite(s.An)) and np.all(np.isfinite(s.Bn))):
            continue
        x, t = rng.uniform(0, 1) * p['L'], rng.uniform(0.001, 1.0) * p['L'] ** 2 / p['kappa']
        full = T1(ROD, p, [x], t)[0]
        saved = (s.An.copy(), s.Bn.copy())
        s.An[:] = 0
        s.Bn[:] = 0
        static = T1(ROD, p, [x], t)[0]                     # what `_run` adds as tempnonhom
        s.An[:], s.Bn[:] = saved
        toks = [str(p['Nsum']), bits(p['kappa']), bits(x), bits(t), bits(static)]
        for i in range(p['Nsum']):
            toks += [bits(s.kn[i]), bits(s.An[i]), bits(s.Bn[i])]
        out.append(dict(line='heat.series ' + ' '.join(toks), want=[full], floor=1e-3, what=dict(cls='Rod1D', params=p, x=x, t=t)))
    return out


def _b_coef(rng, n):
    """coefficient formulas: the hand model's (`heat.coef`) and the traced ones (Float twins RodModes1..4 on a
    symbolic index) vs the arrays the real constructor stores, at random n"""
    man = _manifest()
    out = []
    for _ in range(2 * n):
        bc = rng.choice([1, 2, 3, 4])
        N = rng.choice([3, 12, 200])
        p = rod_params(rng, bc, N=N)
        s = solver(ROD, p)
        i = rng.randrange(N)
        want = [float(s.kn[i]), float(s.An[i]), float(s.Bn[i])]
        out.append(dict(line='heat.coef %d %d ' % (bc, i) + ' '.join(bits(p[k]) for k in (
            'L', 'TL', 'TR', 'alpha1', 'beta1', 'gamma1', 'alpha2', 'beta2', 'gamma2')), want=want, floor=1e-12,
            what=dict(cls='Rod1D', params=p, n=i)))
        out.append(dict(line=_twin_line('RodModes%d' % bc, dict(p, n=float(i)), man), want=want, floor=1e-12,
                        what=dict(model='RodModes%d' % bc, params=p, n=i)))
    # general case: the root the real fsolve returned is handed to the twin as the atom mu
    for _ in range(n):
        p = robin_params(rng, N=6)
        if rng.random() < 0.4:
            p['alpha1'] = 0.0
        s = solver(ROD, p)
        i = rng.randrange(6)
        if not all(map(math.isfinite, (s.kn[i], s.An[i], s.Bn[i]))):
            continue
        want = [float(s.kn[i]), float(s.An[i]), float(s.Bn[i]), None]
        out.append(dict(line=_twin_line('RodModesGen', dict(p, n=float(i), mu=float(s.kn[i] * p['L'])), man), want=want, floor=1e-9,
                        what=dict(model='RodModesGen', params=p, n=i), residual_small=(i != 0 or p['alpha1'] == 0)))
    return out


def _b_traced(rng, n):
    """Float twins of the traced function models that have no automatic correspondence:
    RodRun2 (static parts + summand), Rod3 (constructor + _run), the sandwich constructors"""
    man = _manifest()
    out = []
    for _ in range(n):                                  # RodRun2
        u = rng.random()
        p = robin_params(rng, N=2) if u < 0.3 else rod_params(rng, rng.choice([1, 2, 3, 4]), N=2)
        if u > 0.9:
            p = rod_params(rng, 2, N=2)
            p['gamma2'] = p['gamma1'] + 1.0                # the ValueError leaf
        s = O.construct(ROD, p)
        arr = [rng.uniform(-2, 2) for _ in range(6)]
        s.kn[:], s.An[:], s.Bn[:] = arr[0:2], arr[2:4], arr[4:6]
        x, t = rng.uniform(0, 1) * p['L'], rng.uniform(0.01, 0.5)
        try:
            with np.errstate(all='ignore'):
                want, tag = [x, float(s(np.array([x]), t)['temperature'][0])], 'ok'
        except ValueError:
            want, tag = [], 'raise'
        vals = dict(p, kn0=arr[0], kn1=arr[1], An0=arr[2], An1=arr[3], Bn0=arr[4], Bn1=arr[5], x=x, t=t)
        out.append(dict(line=_twin_line('RodRun2', vals, man), want=want, tag=tag, floor=1e-3, what=dict(model='RodRun2', params=p, x=x, t=t)))
    for _ in range(n):                                  # Rod3
        u = rng.random()
        p = robin_params(rng, N=3) if u < 0.3 else rod_params(rng, rng.choice([1, 2, 3, 4]), N=3)
        if u < 0.1:
            p['alpha1'] = 0.0                              # the cosine branch of the general case
        s = solver(ROD, p)
        if not np.all(np.isfinite(s.kn * s.An * s.Bn)):
            continue
        x, t = rng.uniform(0, 1) * p['L'], rng.uniform(0.01, 0.5)
        mus = [float(k * p['L']) for k in s.kn]
        if bc_of(p) == 0 and p['alpha1'] != 0:
            mus = mus[1:] + [0.0]                          # n = 0 is skipped in that branch: atoms are mu_1, mu_2
        vals = dict(p, mu0=mus[0], mu1=mus[1], mu2=mus[2], x=x, t=t)
        out.append(dict(line=_twin_line('Rod3', vals, man), want=[x, T1(ROD, p, [x], t)[0]], tag='ok', floor=1e-3,
                        what=dict(model='Rod3', params=p, x=x, t=t)))
    for nm, model in (('PlanarSandwich', 'SandwichInit'), ('PlanarSandwichHot', 'SandwichHotInit'), ('PlanarSandwichHalf', 'SandwichHalfInit')):
        for _ in range(max(2, n // 4)):
            p = sandwich_params(rng, nm, N=3)
            s = solver(SANDWICH[nm], p)
            want = [float(getattr(s, k)) for k in ('alpha1', 'beta1', 'gamma1', 'alpha2', 'beta2', 'gamma2', 'TL', 'TR', 'L', 'kappa')]
            for i in range(3):
                want += [float(s.kn[i]), float(s.An[i]), float(s.Bn[i])]
            out.append(dict(line=_twin_line(model, p, man), want=want, tag='ok', floor=1e-12, what=dict(model=model, params=p)))
    return out


def _b_h1(rng, n):
    out = []
    for _ in range(n):
        p = h1_params(rng, N=rng.choice([1, 2, 3, 7, 30]))
        a = p['k'] / (p['rho'] * p['cp'])
        r = rng.choice([0.0, rng.uniform(0, 1) * p['b'], p['b']])
        t = rng.uniform(0.001, 1.0) * p['b'] ** 2 / a
        out.append(dict(line='heat.h1 %d ' % p['Nsum'] + ' '.join(bits(v) for v in (p['k'], p['cp'], p['rho'], p['b'], p['Tb'], p['T0'], r, t)),
                        want=[T1(H1, p, [r], t)[0]], floor=1e-3, what=dict(cls='Hutchens1', params=p, r=r, t=t)))
    return out


def _b_rect(rng, n):
    man = _manifest()
    out = []
    for _ in range(n):
        p = rect_params(rng, N=rng.choice([2, 3, 6]))         # Nsum = 1 leaves both sums empty and the call fails
        x, y, t = rng.uniform(0, 1) * p['a'], rng.uniform(0, 1) * p['b'], rng.uniform(0.005, 0.5)
        w = T2(RECT, p, [(x, y)], t)[0]
        out.append(dict(line='heat.rect %d ' % p['Nsum'] + ' '.join(bits(v) for v in (p['kappa'], p['a'], p['b'], p['Ttop'], x, y, t)),
                        want=[w], floor=1e-3, what=dict(cls='Rectangle', params=p, x=x, y=y, t=t)))
        if p['Nsum'] == 2:
            out.append(dict(line=_twin_line('RectangleN2', dict(p, x=x, y=y, t=t), man), want=[x, y, w], tag='ok', floor=1e-3,
                            what=dict(model='RectangleN2', params=p)))
    return out


def _b_h2(rng, n):
    from scipy.special import i0
    man = _manifest()
    out = []
    for _ in range(n):
        p = h2_params(rng, N=rng.choice([1, 2, 3, 7]))
        r, z = rng.uniform(0, 1) * p['b'], rng.uniform(0, 1) * p['L']
        w = T2(H2, p, [(r, z)], 0)[0]
        toks = [bits(v) for v in (p['k'], p['g0'], p['Tb'], p['T0'], p['TL'], p['L'], z)]
        I = []
        for i in range(p['Nsum']):
            lam = float(2 * i + 1) * np.pi / p['L']
            I += [float(i0(lam * r)), float(i0(lam * p['b']))]
        out.append(dict(line='heat.h2 %d ' % p['Nsum'] + ' '.join(toks + [bits(v) for v in I]), want=[w], floor=1e-3,
                        what=dict(cls='Hutchens2', params=p, r=r, z=z)))
        if p['Nsum'] == 2:
            vals = dict(p, r=r, z=z, I0r0=I[0], I0b0=I[1], I0r1=I[2], I0b1=I[3])
            out.append(dict(line=_twin_line('Hutchens2N2', vals, man), want=[r, z, w], tag='ok', floor=1e-3,
                            what=dict(model='Hutchens2N2', params=p)))
    return out


def _b_cyl(rng, n):
    """one (n, m) = (0, 0) term of the cylindrical sandwich: the atoms (alpha, beta, Bessel values, quadrature) are
    computed with the solver's own methods"""
    from scipy import special as sp
    from scipy.integrate import quad
    out = []
    for _ in range(max(3, n // 3)):
        p = dict(Nsum=1, Msum=1, kappa=rng.uniform(0.5, 1.5), T1=rng.uniform(0.5, 2.0), T0=rng.uniform(0.0, 1.0),
                 a=rng.uniform(0.2, 0.3), b=rng.uniform(0.8, 0.9))
        s = solver(CYL, p)
        with warnings.catch_warnings():
            warnings.simplefilter('ignore')
            al, be = s.alpha(1, 1, p['a'], p['b'])
        al, be = float(al[0, 0]), float(be[0, 0])
        k = 2
        R = lambda x: float(sp.jn(k, al * x) + be * sp.yn(k, al * x))
        r, th, t = rng.uniform(p['a'], p['b']), rng.uniform(0, math.pi / 2), rng.uniform(0.01, 0.1)
        q = float(quad(lambda x: x * R(x), p['a'], p['b'])[0])
        w = T2(CYL, p, [(r, th)], t)[0]
        toks = [bits(v) for v in (p['kappa'], p['T0'], p['T1'], p['a'], p['b'], al, R(r), R(p['b']), R(p['a']), q, th, t)]
        out.append(dict(line='heat.cyl 0 0 ' + ' '.join(toks), want=[w], floor=1e-3, what=dict(cls='CylindricalSandwich', params=p, r=r, theta=th, t=t)))
    return out


BUILDERS = [('rod', _b_rod), ('sandwich', _b_sandwich), ('series', _b_series), ('coef', _b_coef), ('traced', _b_traced),
            ('h1', _b_h1), ('rect', _b_rect), ('h2', _b_h2), ('cyl', _b_cyl)]


def _tie(name):
    def run(rng, deep):
        start, cases = _BATCH.get(rng, deep)[name]
        st = dict(evaluations=0, distinct_nontrivial=0, mismatches=[], samples=[])
        seen = set()
        for c in cases:
            st['evaluations'] += 1
            ws = c['out'].split()
            tag = ws[0]
            bad = None
            if 'tag' in c and c['tag'] == 'raise':
                if not tag.startswith('raise') or not tag.endswith('ValueError'):
                    bad = 'code raised ValueError, model %s' % tag
            elif not tag.startswith('ok'):
                bad = 'model outcome %s, code returned numbers' % tag
            else:
                vals = [lean_io.unbits(w) for w in ws[1:]]
                want = c['want']
                if len(vals) < len(want):
                    bad = 'model returned %d values, expected %d' % (len(vals), len(want))
                else:
                    for i, (a, b) in enumerate(zip(want, vals)):
                        if a is None:
                            if c.get('residual_small') and not abs(b) < 1e-6:
                                bad = 'fsolve root does not satisfy the traced equation: residual %r' % b
                            continue
                        if not _close(a, b, c['floor']):
                            bad = 'value %d: code %r model %r' % (i, a, b)
                            break
                    if all(a is None or math.isfinite(a) for a in want) and c['line'] not in seen:
                        seen.add(c['line'])
            if bad:
                st['mismatches'].append(dict(why=bad, **c['what']))
            if len(st['samples']) < 1:
                st['samples'].append(dict(tie='heat.' + name, input=c['what'], model=c['out'][:80]))
        st['distinct_nontrivial'] = len(seen)
        return st
    run.__name__ = 'tie_heat_' + name
    return run


tie_rod = _tie('rod')
tie_sandwich = _tie('sandwich')
tie_series = _tie('series')
tie_coef = _tie('coef')
tie_traced = _tie('traced')
tie_h1 = _tie('h1')
tie_rect = _tie('rect')
tie_h2 = _tie('h2')
tie_cyl = _tie('cyl')


# --------------------------------------------------------------------------
# C14 oracle: flux at x = 0, Robin (convective) condition at x = L — *which* roots fsolve returns.
# The theorems take each mu_n as a root of mu tan(mu) = a (a = alpha2 L / beta2); that the N roots are the
# first N positive ones, each exactly once, is what makes the series complete (initial data).  For a > 0 the
# k-th root lies in (k pi, k pi + pi/2).  Added after seeded C14-6 (another starting guess: mode 1 became a
# copy of mode 2 for a >= 5, PDE and boundary conditions still exact, initial profile off by O(1)).
# --------------------------------------------------------------------------

def _gen_flux_robin(rng):
    if rng.random() < 0.08:
        return dict(a=20.0, L=1.0, N=8)                        # the recorded witness of the baseline defect
    return dict(a=10 ** rng.uniform(-0.7, 1.15), L=rng.choice([0.5, 1.0, 2.0, 3.0]), N=rng.choice([4, 8, 12, 20]))


def _chk_flux_robin(c):
    a, L, N = c['a'], c['L'], c['N']
    try:          # rod1d.py: a = alpha2 / (beta2 / L)
        s = solver(ROD, dict(alpha1=0.0, beta1=1.0, gamma1=0.0, alpha2=a / L, beta2=1.0, gamma2=0.0, L=L, Nsum=N))
    except Exception:
        return None
    mu = [float(k) * L for k in s.kn]
    bad = [n for n in range(N) if not (n * math.pi < mu[n] < n * math.pi + math.pi / 2)]
    if bad:
        return dict(site='Rod1D:flux-robin-roots' + (':strong-convection' if a >= 16.5 else ''),
                    detail='alpha1=0, alpha2 L/beta2 = %r, Nsum=%d: mode %d has mu = %r, not the root in (%d pi, %d pi + pi/2); mu = %r'
                           % (a, N, bad[0], mu[bad[0]], bad[0], bad[0], [round(m, 3) for m in mu[:6]]))
    return None


flux_robin_roots = O.make(_gen_flux_robin, _chk_flux_robin, 'c14.flux_robin_roots')
