"""harness.oracle -- numeric property checks on the *real* code.

These are tests, not proofs: they validate the model against the code, look
for a concrete failing input when a proof obligation or a correspondence
breaks, and cover the parts that are modelled-not-verified (ODE interiors,
quadrature, grids).  Every random choice comes from the rng handed in."""
import math
import time
import warnings

import numpy as np

from py2lean.trace import load


def make(gen, check, name):
    """gen(rng) -> JSON-able case ; check(case) -> None | dict(site=..., detail=...)"""
    def run(rng, budget, deep, replay=None):
        res = dict(evaluations=0, failures=[], samples=[], worst=None, distinct_nontrivial=0)
        with warnings.catch_warnings():
            warnings.simplefilter('ignore')
            with np.errstate(all='ignore'):
                if replay is not None:
                    case = replay.get('case', replay)
                    f = check(case)
                    res['evaluations'] = 1
                    if f:
                        f['case'] = case
                        res['failures'].append(f)
                    return res
                t0 = time.time()
                seen = set()
                n = 0
                while True:
                    case = gen(rng)
                    n += 1
                    f = check(case)
                    res['evaluations'] += 1
                    k = repr(case)
                    if k not in seen:
                        seen.add(k)
                        res['distinct_nontrivial'] += 1
                    if len(res['samples']) < 1:
                        res['samples'].append(dict(oracle=name, case=case))
                    if f:
                        f['case'] = case
                        f.setdefault('oracle', name)
                        # keep one failure per site
                        if f.get('site') not in [x.get('site') for x in res['failures']]:
                            res['failures'].append(f)
                    if time.time() - t0 > budget and n >= 3:
                        break
                    if n > 200000:
                        break
        return res
    run.__name__ = name
    return run


def construct(clspath, params):
    _, cls = load(clspath)
    return cls(**params)


def fields(clspath, params, pts, t):
    """call the public solver; returns dict name -> list of floats (NaN for non-real)"""
    s = construct(clspath, params)
    sol = s(np.array(pts, dtype=float), t)
    out = {}
    for n in sol.dtype.names:
        col = sol[n]
        vals = []
        for v in np.atleast_1d(col):
            try:
                if isinstance(v, (complex, np.complexfloating)):
                    vals.append(float('nan') if v.imag != 0 else float(v.real))
                else:
                    vals.append(float(v))
            except (TypeError, ValueError):
                vals.append(float('nan'))
        out[n] = vals
    return out


def try_fields(clspath, params, pts, t):
    """None when the solver rejects or fails on the request (that is C20's business)"""
    try:
        return fields(clspath, params, pts, t)
    except Exception:
        return None


def relerr(a, b, floor=0.0):
    if not (math.isfinite(a) and math.isfinite(b)):
        return float('inf') if (math.isfinite(a) != math.isfinite(b)) else 0.0
    return abs(a - b) / max(abs(a), abs(b), floor, 1e-300)


def uniform_params(spec, rng):
    out = {}
    for k, v in spec.items():
        if isinstance(v, list):
            out[k] = rng.choice(v)
        elif isinstance(v, tuple):
            out[k] = rng.uniform(*v)
        else:
            out[k] = v
    return out
