"""Guderley converging shock and RMTV: ties of the generated function models with the real code,
and numeric oracles on the real code.

TIES (correspondence; tests of the models, not of the properties).  Every generated model of
targets/t_guderley.py is a function of numerical ATOMS (results of solve_ivp / brentq / quad).
The tie runs the REAL function with the scipy primitive replaced, for that one call, by a stub
that returns prescribed random atom values, feeds the same values to the Float twin (Lean, line
protocol) and compares every output, the outcome class and the exception class:

  GudState GudJump GudX GudG GudF GudEnergy GudResidual GudEexp GudFe GudRun GudInit
  RmtvRun RmtvStart RmtvJump RmtvDerivs RmtvFun RmtvInit RmtvWire RmtvLoop

ORACLES (the property evaluated on the real code).
  RMTV — quick tier, a call costs ~10 ms per point:
    rmtv_eos          C03   P = (gamma-1) rho e, P = Gamma rho T 1e13, e = Gamma T/(gamma-1) 1e13 per point
    rmtv_jump         C02   mass / momentum flux and temperature across the shock from the public call at
                            r_s (1 -/+ delta), shock speed from the shock positions at neighbouring times
    rmtv_pde          C02   finite-difference mass and momentum balance of the public call (time through rf)
    rmtv_similarity   C02   fields at (r, rf) and (s r, s rf)
    rmtv_admissible   C17   signs; the isothermal shock is compressive
    rmtv_restrictions C20   documented a <= 0, b >= 1 are not enforced (FINDING)
  Guderley — the similarity exponent `eexp(n, gamma)` costs 50-160 s and is a function of
  (n, gamma) alone.  QUICK tier: `ramsey.eexp` is replaced by the PUBLISHED value for that
  (n, gamma) (table of [Guderley2012] quoted in exactpack/tests/test_guderley.py); everything else
  — get_shock_position (0.3 s), state, the integrations, the public class — is the real code;
  a call then costs milliseconds per point.  THOROUGH tier: additionally ONE unpatched real call
  (default parameters, three points) whose eexp result is memoised for the rest of the process
  and compared with the table.
    gud_eos           C03   p = (gamma-1) rho e, c^2 = gamma p / rho
    gud_similarity    C10   (r, t) vs (s r, t'), t' = fC (s^lam (t/fC - 1) + 1)
    gud_pde_lazarus   C01   4th-order finite differences, time derivative per unit of LAZARUS time
    gud_pde_solver    C01   the same with the solver's own time argument (FINDING)
    gud_rh            C02   converging and reflected shock: positions by bisection on the returned
                            density at t and t -/+ dt, one-sided states, Rankine-Hugoniot with the speed
                            per unit Lazarus time; gud_rh_solver: per unit solver time (FINDING)
    gud_units         C08   mass scaling, similarity scaling; gud_units_lt: independent length unit (FINDING)
    gud_admissible    C17   signs, compressive shocks
    gud_reject        C20   geometry=1 / gamma out of range: ValueError at the first call; finite in-domain
    gud_focus         C20   t = 0.750024322 returns inf (FINDING)
"""
import inspect
import json
import math
import os
import warnings

import numpy as np

from . import lean_io
from py2lean.trace import load

RAMSEY = 'exactpack.solvers.guderley.ramsey'
EEXP = 'exactpack.solvers.guderley.eexp'
TIMMES = 'exactpack.solvers.rmtv.timmes'
GCLS = 'exactpack.solvers.guderley.guderley:Guderley'
RCLS = 'exactpack.solvers.rmtv.rmtv:Rmtv'
FC = 0.750024322

# [Guderley2012] via exactpack/tests/test_guderley.py: (n, gamma) -> alpha = 1/lambda
ALPHA_TABLE = {(2, 1.4): 0.835323192, (2, 2.0): 0.800112351, (2, 3.0): 0.775666619, (2, 6.0): 0.751561684,
               (3, 1.4): 0.717174501, (3, 2.0): 0.667046070, (3, 3.0): 0.636410594, (3, 6.0): 0.610339148}


def _m(name):
    import importlib
    return importlib.import_module(name)


class patched(object):
    """rebind names in a module for the duration of a with-block"""
    _missing = object()

    def __init__(self, mod, **vals):
        self.mod, self.vals, self.saved = mod, vals, {}

    def __enter__(self):
        for k, v in self.vals.items():
            self.saved[k] = self.mod.__dict__.get(k, self._missing)
            setattr(self.mod, k, v)
        return self

    def __exit__(self, *a):
        for k, v in self.saved.items():
            if v is self._missing:
                if k in self.mod.__dict__:
                    delattr(self.mod, k)
            else:
                setattr(self.mod, k, v)
        return False


def quiet():
    class Q(object):
        def __enter__(self):
            self.w = warnings.catch_warnings()
            self.w.__enter__()
            warnings.simplefilter('ignore')
            self.e = np.errstate(all='ignore')
            self.e.__enter__()

        def __exit__(self, *a):
            self.e.__exit__(*a)
            self.w.__exit__(*a)
            return False
    return Q()


# ======================================================================================
# ties
# ======================================================================================

def _manifest():
    return json.load(open(os.path.join(lean_io.LEAN_DIR, 'EPV', 'Gen', 'gen_manifest.json')))


def _twin(name, entry, vals):
    order = entry['params'] + entry['pvars'] + ([entry['tvar']] if entry['tvar'] else [])
    return (name + ' ' + ' '.join(lean_io.bits(float(vals[a])) for a in order)).strip()


def _close(a, b, rtol):
    fa, fb = math.isfinite(a), math.isfinite(b)
    if not fa or not fb:
        if math.isnan(a) or math.isnan(b):
            return math.isnan(a) and math.isnan(b)
        return a == b
    return abs(a - b) <= rtol * max(abs(a), abs(b)) + 1e-300


def _compare(st, name, lines, expected, info, rtol=1e-12):
    """expected[i] = ('ok', [values]) | ('nan',) | ('raise', ExcName)"""
    if not lines:
        return
    outs = lean_io.run_lines(lines)
    for line, e, inf in zip(outs, expected, info):
        tag, vals = lean_io.parse_result(line)
        st['evaluations'] += 1
        kind = tag.split(':')[0]
        bad = None
        if e[0] == 'ok':
            if kind == 'nan' and any(math.isnan(v) for v in e[1]):
                pass
            elif kind != 'ok':
                bad = 'code ok %r, model %s' % (e[1], tag)
            elif len(vals) != len(e[1]):
                bad = 'arity: model %d code %d' % (len(vals), len(e[1]))
            else:
                for i, (a, b) in enumerate(zip(e[1], vals)):
                    if not _close(a, b, rtol):
                        bad = 'output %d: code %r model %r' % (i, a, b)
                        break
                if not bad and all(math.isfinite(v) for v in e[1]):
                    st['distinct_nontrivial'] += 1
        elif e[0] == 'raise':
            arith = e[1] in ('ZeroDivisionError', 'OverflowError')
            if kind == 'raise':
                if tag.split(':')[2] != e[1]:
                    bad = 'code raises %s, model %s' % (e[1], tag)
            elif not (arith and (kind == 'nan' or any(not math.isfinite(v) for v in vals))):
                bad = 'code raises %s, model %s' % (e[1], tag)
        h = st['leaf_hist'].setdefault(name, {})
        h[tag.split(' ')[0]] = h.get(tag.split(' ')[0], 0) + 1
        if bad:
            st['mismatches'].append(dict(model=name, input=inf, why=bad))
        if len(st['samples']) < 1:
            st['samples'].append(dict(model=name, input=inf, outcome=tag))


def _real(fn):
    """('ok', floats) | ('raise', name)"""
    try:
        with quiet():
            out = fn()
        return ('ok', [float(v) for v in out])
    except _Stop:
        raise
    except Exception as ex:
        return ('raise', type(ex).__name__)


class _Stop(Exception):
    pass


class FakeIvp(object):
    """stand-in for scipy's solve_ivp: the k-th call returns `script[k]`; start values and spans
    are recorded; `stop_at` = index of the call at which the run is abandoned"""

    class Soln(object):
        pass

    def __init__(self, script, stop_at=None):
        self.script, self.stop_at = script, stop_at
        self.calls = []

    def __call__(self, rhs, span, y0, **kw):
        k = len(self.calls)
        self.calls.append((tuple(float(x) for x in span), [float(v) for v in y0]))
        if self.stop_at is not None and k == self.stop_at:
            raise _Stop()
        s = FakeIvp.Soln()
        s.t = np.array([span[0], span[1]], dtype=float)
        s.y = np.array([[0.0, v] for v in self.script[min(k, len(self.script) - 1)]], dtype=float)
        s.status = 1
        return s


def _gamma_lambda(rng):
    (n, g), al = rng.choice(sorted(ALPHA_TABLE.items()))
    return n, g * rng.uniform(0.97, 1.03), (1.0 / al) * rng.uniform(0.97, 1.03)


def _tie_gud_state(st, man, rng, n):
    R = _m(RAMSEY)
    e = man['GudState']
    lines, exp, info = [], [], []
    for k in range(n):
        ng, gam, lam = _gamma_lambda(rng)
        B = rng.uniform(0.5, 3.0)
        x = [rng.uniform(-3, -1.01), -1.0, rng.uniform(-0.99, -0.01), rng.uniform(0.01, B * 0.99), B,
             rng.uniform(B * 1.01, 5 * B)][k % 6]
        r, rho0 = rng.uniform(0.05, 3.0), rng.uniform(0.2, 5.0)
        Vb, Cb, Rb = rng.uniform(-0.5, 0.2), rng.choice([-1, 1, 1, -1, 0]) * rng.uniform(0.05, 0.4), rng.uniform(5, 30)
        V, C, Rr = rng.uniform(-0.9, 0.3), rng.uniform(-1, 1), rng.uniform(1, 40)
        ivp = FakeIvp([(Vb, Cb, Rb), (V, C, Rr)] if x >= B else [(V, C, Rr)])
        with patched(R, solve_ivp=ivp):
            res = _real(lambda: R.state(np.float64(r), rho0, ng, gam, lam, B, np.float64(x)))
        vals = dict(B=B, C=C, Cb=Cb, R=Rr, V=V, gamma_d=gam, lambda_d=lam, r=r, rho0=rho0, targetx=x)
        lines.append(_twin('GudState', e, vals))
        exp.append(res)
        info.append(vals)
    _compare(st, 'GudState', lines, exp, info)


def _tie_gud_jump(st, man, rng, n):
    R = _m(RAMSEY)
    e = man['GudJump']
    lines, exp, info = [], [], []
    for k in range(n):
        ng, gam, lam = _gamma_lambda(rng)
        a = rng.uniform(0.3, 1.2)                          # 1 + Vb
        Cb = rng.choice([-1, 1]) * a * rng.uniform(0.1, 0.95)     # supersonic upstream: the root is real
        Vb, Rb = a - 1.0, rng.uniform(5, 30)
        ivp = FakeIvp([(Vb, Cb, Rb)], stop_at=1)
        with patched(R, solve_ivp=ivp):
            try:
                with quiet():
                    R.state(1.0, 1.0, ng, gam, lam, 1.0, 2.0)
                res = ('raise', 'state returned')
            except _Stop:
                res = ('ok', ivp.calls[0][1] + ivp.calls[1][1] + [float(R.gamma), float(R.lambda_), float(R.nu)])
            except Exception as ex:
                res = ('raise', type(ex).__name__)
        vals = dict(Cb=Cb, Rb=Rb, Vb=Vb, gamma_d=gam, lambda_d=lam, n=ng)
        lines.append(_twin('GudJump', e, vals))
        exp.append(res)
        info.append(vals)
    _compare(st, 'GudJump', lines, exp, info)


def _tie_gud_x(st, man, rng, n):
    R = _m(RAMSEY)
    e = man['GudX']
    lines, exp, info = [], [], []
    for k in range(n):
        ng, gam, lam = _gamma_lambda(rng)
        B, rho0 = rng.uniform(0.5, 3.0), rng.uniform(0.2, 5.0)
        r, t = rng.uniform(0.05, 3.0), rng.uniform(-1.0, 3.0)
        s5 = [rng.uniform(-2, 2) for _ in range(5)]
        seen = []

        def state(*a):
            seen.append(a)
            return tuple(s5)
        with patched(R, eexp=lambda n_, g_: lam, get_shock_position=lambda n_, g_, l_: B, state=state):
            def run():
                out = R.guderley_1d(t, np.array([r]), ng, gam, rho0)
                return [float(v) for v in seen[0]] + [float(o[0]) for o in out]
            res = _real(run)
        vals = dict(B=B, gamma=gam, lambda_=lam, ngeom=ng, rho0=rho0, s_den=s5[0], s_vel=s5[1], s_pres=s5[2],
                    s_snd=s5[3], s_sie=s5[4], r=r, t=t)
        lines.append(_twin('GudX', e, vals))
        exp.append(res)
        info.append(vals)
    _compare(st, 'GudX', lines, exp, info)


def _tie_gud_rhs(st, man, rng, n):
    R = _m(RAMSEY)
    for name in ('GudG', 'GudF'):
        e = man[name]
        lines, exp, info = [], [], []
        for k in range(n):
            ng, gam, lam = _gamma_lambda(rng)
            x = rng.choice([-1, 1]) * rng.uniform(0.01, 4.0)
            V, C, Rr = rng.uniform(-0.9, 0.3), rng.uniform(-1, 1), rng.uniform(1, 40)
            sigma, intno = rng.uniform(0.3, 2.0), rng.choice([1, 2])
            with patched(R, gamma=gam, lambda_=lam, nu=ng - 1, sigma=sigma, intno=intno):
                f = R.g if name == 'GudG' else R.f
                res = _real(lambda: f(x, np.array([V, C, Rr])))
            vals = dict(C=C, R=Rr, V=V, gamma=gam, lambda_=lam, nu=ng - 1, x=x, sigma=sigma, intno=intno)
            lines.append(_twin(name, e, vals))
            exp.append(res)
            info.append(vals)
        _compare(st, name, lines, exp, info)
    e = man['GudEnergy']
    lines, exp, info = [], [], []
    for k in range(n):
        ng, gam, lam = _gamma_lambda(rng)
        x = rng.choice([-1, 1]) * rng.choice([rng.uniform(0.01, 4.0), 1e-9, 1e-8])
        V, C, Rr, e0 = rng.uniform(-0.9, 0.3), rng.uniform(-1, 1), rng.uniform(1, 40), rng.uniform(0, 2)
        res = _real(lambda: [R.energy(x, np.array([V, C, Rr]), gam, lam, ng - 1, e0)])
        vals = dict(C=C, R=Rr, V=V, energy0=e0, gamma=gam, lambda_=lam, nu=ng - 1, x=x)
        lines.append(_twin('GudEnergy', e, vals))
        exp.append(res)
        info.append(vals)
    _compare(st, 'GudEnergy', lines, exp, info, rtol=1e-11)


def _tie_gud_residual(st, man, rng, n):
    R = _m(RAMSEY)
    e = man['GudResidual']
    lines, exp, info = [], [], []
    for k in range(n):
        ng, gam, lam = _gamma_lambda(rng)
        a = rng.uniform(0.3, 1.2)
        Cb = rng.choice([-1, 1]) * a * rng.uniform(0.1, 0.95)
        Vb, Rb = a - 1.0, rng.uniform(5, 30)
        Vw, Cw, Rw = rng.uniform(-0.9, 0.3), rng.uniform(-1, 1), rng.uniform(1, 40)
        B = rng.uniform(0.5, 3.0)
        ivp = FakeIvp([(Vb, Cb, Rb), (Vw, Cw, Rw)])
        with patched(R, solve_ivp=ivp, gamma=None, lambda_=None, nu=None, sigma=None, intno=None, V1=None):
            def run():
                res = R.Guderley(B, ng, gam, lam)
                (s0, y0), (s1, y1) = ivp.calls[0], ivp.calls[1]
                return [res, R.V1, y0[0], y0[1], y0[2], y1[0], y1[1], R.sigma, s1[0]]
            res = _real(run)
        vals = dict(Cb=Cb, Cw=Cw, Vb=Vb, gamma_d=gam, lambda_d=lam, n=ng)
        lines.append(_twin('GudResidual', e, vals))
        exp.append(res)
        info.append(vals)
    _compare(st, 'GudResidual', lines, exp, info)


EEXP_STREAM = [(1, 1.4), (2, 1.4), (3, 1.4), (4, 1.4), (0, 1.4), (2.5, 1.4), (3, 1.0), (3, 1.00001), (3, 1.0000100001),
               (2, 1.005), (3, 1.005), (2, 1.007), (2, 1.0072), (3, 1.02), (3, 3.0), (3, 3.7320508), (3, 3.732050808),
               (3, 3.8), (2, 6.0), (3, 9998.0), (3, 9999.0), (3, 10000.0), (2, 0.5), (3, -1.0)]


def _tie_gud_eexp(st, man, rng, n):
    X = _m(EEXP)
    e = man['GudEexp']
    lines, exp, info = [], [], []
    cases = list(EEXP_STREAM) + [(rng.choice([2, 3]), rng.uniform(1.01, 8.0)) for _ in range(n)]
    for ng, gam in cases:
        alpha = rng.uniform(0.55, 0.95)
        with patched(X, brentq=lambda f, a, b, **kw: alpha):
            res = _real(lambda: [X.eexp(ng, gam)])
        vals = dict(alpha=alpha, gamm=gam, nnn=ng)
        lines.append(_twin('GudEexp', e, vals))
        exp.append(res)
        info.append(vals)
    _compare(st, 'GudEexp', lines, exp, info)
    e = man['GudFe']
    lines, exp, info = [], [], []
    for k in range(n):
        a, ng, g = rng.uniform(0.55, 0.95), rng.choice([2, 3]), rng.uniform(1.05, 6.0)
        t, y0 = rng.uniform(0.05, 0.5), rng.uniform(0.01, 0.5)
        with patched(X, a=a, n=ng, g=g):
            res = _real(lambda: [X.fe(t, np.array([y0]))])
        vals = dict(a=a, g=g, n=ng, t=t, y0=y0)
        lines.append(_twin('GudFe', e, vals))
        exp.append(res)
        info.append(vals)
    _compare(st, 'GudFe', lines, exp, info)


def _tie_gud_class(st, man, rng, n):
    G = _m('exactpack.solvers.guderley.guderley')
    e = man['GudRun']
    lines, exp, info = [], [], []
    for k in range(n):
        p = dict(geometry=rng.choice([1, 2, 3]), gamma=rng.uniform(1.1, 6.0), rho0=rng.uniform(0.2, 5.0))
        o = [rng.uniform(-2, 2) for _ in range(5)]
        r, t = rng.uniform(0.05, 3.0), rng.uniform(-1.0, 3.0)
        seen = {}

        def g1d(*args, _sig=inspect.signature(_m('exactpack.solvers.guderley.ramsey').guderley_1d), **kw):
            # keyword or positional call: the wiring is what is compared, bound by the real signature
            seen.update(_sig.bind(*args, **kw).arguments)
            return tuple(np.array([v]) for v in o)
        with patched(G, guderley_1d=g1d):
            def run():
                s = G.Guderley(**p)
                sol = s._run(np.array([r]), t)
                names = ['position', 'density', 'velocity', 'pressure', 'sound_speed', 'specific_internal_energy']
                if list(sol.dtype.names) != names:
                    raise RuntimeError('field names %r' % (sol.dtype.names,))
                return [sol[nm][0] for nm in names] + [seen['t'], seen['ngeom'], seen['gamma'], seen['rho0']]
            res = _real(run)
        vals = dict(p, o_den=o[0], o_vel=o[1], o_pres=o[2], o_snd=o[3], o_sie=o[4], r=r, t=t)
        lines.append(_twin('GudRun', e, vals))
        exp.append(res)
        info.append(vals)
    _compare(st, 'GudRun', lines, exp, info)
    # the constructors validate nothing
    for name, clsp, stream in (('GudInit', GCLS, [dict(), dict(geometry=1), dict(geometry=7), dict(gamma=0.5),
                                                  dict(gamma=1.0), dict(rho0=-1.0), dict(rho0=0.0)]),
                               ('RmtvInit', RCLS, [dict(), dict(aval=0.5), dict(aval=1.0), dict(bval=0.5), dict(gamma=1.0),
                                                   dict(chi0=-1.0), dict(rf=-1.0), dict(g0=-1.0), dict(xis=2.5)])):
        e = man[name]
        C = load(clsp)[1]
        lines, exp, info = [], [], []
        for p in stream:
            res = _real(lambda: [1.0 if C(**p) is not None else 0.0])
            lines.append(_twin(name, e, {}))
            exp.append(res)
            info.append(p)
        _compare(st, name, lines, exp, info)


RMTV_ARGS = ['rpos', 'aval_in', 'bval_in', 'chi0', 'gamma', 'bigamma', 'rf', 'xif_in', 'xis', 'beta0_in', 'g0']
RMTV_DEFAULT = dict(aval_in=-2.0, bval_in=6.5, chi0=1.0, gamma=1.25, bigamma=1.0, rf=0.9, xif_in=2.0, xis=1.0,
                    beta0_in=7.197534e7, g0=1.0)


def _rmtv_params(rng):
    p = dict(RMTV_DEFAULT)
    p.update(aval_in=rng.uniform(-3.0, -0.5), bval_in=rng.uniform(4.0, 8.0), chi0=rng.uniform(0.5, 2.0),
             gamma=rng.uniform(1.1, 1.9), bigamma=rng.uniform(0.5, 2.0), rf=rng.uniform(0.3, 2.0),
             xif_in=rng.uniform(1.5, 3.0), xis=rng.choice([1.0, 1.0, rng.uniform(0.6, 1.2)]),
             beta0_in=rng.uniform(1e6, 1e8), g0=rng.uniform(0.5, 2.0))
    return p


def _tie_rmtv(st, man, rng, n):
    T = _m(TIMMES)
    G = {k: None for k in ('aval', 'bval', 'xif', 'beta0', 'xgeom', 'alpha', 'amu', 'kappa', 'sigma')}
    # --- RmtvRun, RmtvStart -------------------------------------------------------------
    for name, stop in (('RmtvRun', None), ('RmtvStart', 0)):
        e = man[name]
        lines, exp, info = [], [], []
        for k in range(3 * n):
            p = _rmtv_params(rng)
            if k % 4 == 3:
                p['xis'] = rng.uniform(1.05, 1.4)      # the branches with the integration end beyond xi = 1
            rs = p['rf'] / p['xif_in']
            p['rpos'] = [p['rf'] * 1.2, rs * rng.uniform(1.02, p['xif_in'] * 0.98), rs * rng.uniform(0.05, 0.98),
                         rs * 5e-5, rs, rs * rng.uniform(1.02, 1.5)][k % 6]
            ustar, ans = rng.uniform(0.05, 0.45), rng.uniform(0, 1e-20)
            y2 = [rng.uniform(0.05, 0.6), rng.uniform(0.2, 3.0), rng.uniform(-1, 3), rng.uniform(0.05, 0.5)]
            y = [rng.uniform(0.0, 0.9), rng.uniform(0.2, 9.0), rng.uniform(-1, 3), rng.uniform(0.05, 0.5)]
            ivp = FakeIvp([y2, y], stop_at=stop)
            with patched(T, solve_ivp=ivp, brentq=lambda f, a, b, **kw: ustar, quad=lambda f, a, b, **kw: (ans, 0.0), **G):
                if stop is None:
                    res = _real(lambda: T.rmtv_1d(*[p[a] for a in RMTV_ARGS]))
                else:
                    try:
                        with quiet():
                            T.rmtv_1d(*[p[a] for a in RMTV_ARGS])
                        res = ('ok', [float('nan')] * 6)
                    except _Stop:
                        res = ('ok', ivp.calls[0][1] + list(ivp.calls[0][0]))
                    except Exception as ex:
                        res = ('raise', type(ex).__name__)
            vals = dict(p, ustar=ustar, ans=ans, U2=y2[0], H2=y2[1], W2=y2[2], T2=y2[3], U=y[0], H=y[1], W=y[2], T=y[3])
            lines.append(_twin(name, e, vals))
            exp.append(res)
            info.append(vals)
        _compare(st, name, lines, exp, info, rtol=1e-11)
    # --- RmtvJump -----------------------------------------------------------------------
    from py2lean.targets.t_guderley import RMTV_JUMP_ARGS
    e = man['RmtvJump']
    lines, exp, info = [], [], []
    for k in range(n):
        y2 = [rng.uniform(0.05, 0.6), rng.uniform(0.2, 3.0), rng.uniform(-1, 3), rng.uniform(0.05, 0.5)]
        ivp = FakeIvp([y2], stop_at=1)
        with patched(T, solve_ivp=ivp, brentq=lambda f, a, b, **kw: 0.25, quad=lambda f, a, b, **kw: (0.0, 0.0), **G):
            try:
                with quiet():
                    T.rmtv_1d(*[RMTV_JUMP_ARGS[a] for a in RMTV_ARGS])
                res = ('raise', 'rmtv_1d returned')
            except _Stop:
                res = ('ok', ivp.calls[1][1])
            except Exception as ex:
                res = ('raise', type(ex).__name__)
        vals = dict(U2=y2[0], H2=y2[1], W2=y2[2], T2=y2[3])
        lines.append(_twin('RmtvJump', e, vals))
        exp.append(res)
        info.append(vals)
    _compare(st, 'RmtvJump', lines, exp, info)
    # --- RmtvDerivs ---------------------------------------------------------------------
    e = man['RmtvDerivs']
    lines, exp, info = [], [], []
    for k in range(n + 6):
        g = dict(alpha=rng.uniform(0.3, 0.9), aval=rng.uniform(-3, -0.5), bval=rng.uniform(4, 8), beta0=rng.uniform(1e6, 1e8),
                 xgeom=3.0, kappa=rng.uniform(-3, -1), sigma=rng.uniform(2, 8), amu=rng.uniform(2, 20))
        y = [rng.uniform(0.0, 0.9), rng.uniform(0.2, 9.0), rng.uniform(-1, 3), rng.uniform(0.05, 0.5)]
        if k == 0:
            g['alpha'] = 0.0
        elif k == 1:
            g['aval'] = 1.0
        elif k == 2:
            y[1] = 1e-17
        elif k == 3:
            y[3] = 0.0
        elif k == 4:
            y[3] = (y[0] - 1.0) ** 2
        with patched(T, print=lambda *a, **kw: None, **g):
            res = _real(lambda: T.derivs(0.1, np.array(y)))
        vals = dict(g, U=y[0], H=y[1], W=y[2], T=y[3])
        lines.append(_twin('RmtvDerivs', e, vals))
        exp.append(res)
        info.append(vals)
    _compare(st, 'RmtvDerivs', lines, exp, info, rtol=1e-11)
    # --- RmtvFun ------------------------------------------------------------------------
    e = man['RmtvFun']
    lines, exp, info = [], [], []
    for k in range(n):
        g = dict(amu=rng.uniform(2, 20), aval=rng.uniform(-3, -0.5), bval=rng.uniform(4, 8), beta0=rng.uniform(1e6, 1e8),
                 xif=rng.uniform(1.5, 3.0), alpha=rng.uniform(0.3, 0.9))
        yy, u, ans = rng.uniform(0.01, 0.49), rng.uniform(0.01, 0.49), rng.uniform(0, 1e-18)
        with patched(T, quad=lambda f, a, b, **kw: (ans, 0.0), **g):
            res = _real(lambda: [T.fun(yy), T.rmtvfun(u)])
        vals = dict(g, y=yy, u=u, ans=ans)
        lines.append(_twin('RmtvFun', e, vals))
        exp.append(res)
        info.append(vals)
    _compare(st, 'RmtvFun', lines, exp, info, rtol=1e-11)
    # --- wiring: RmtvWire, RmtvLoop --------------------------------------------------------
    W = _m('exactpack.solvers.rmtv.rmtv')
    e = man['RmtvWire']
    KW = ['aval_in', 'bval_in', 'chi0', 'gamma', 'bigamma', 'rf', 'xif_in', 'xis', 'beta0_in', 'g0']
    ATTR = ['aval', 'bval', 'chi0', 'gamma', 'bigamma', 'rf', 'xif', 'xis', 'beta0', 'g0']
    lines, exp, info = [], [], []
    for k in range(n):
        p = {a: rng.uniform(0.1, 9.0) for a in ATTR}
        o = [rng.uniform(-2, 2) for _ in range(5)]
        r, t = rng.uniform(0.05, 3.0), rng.uniform(0.0, 3.0)
        seen = {}

        def rmtv(*args, _sig=inspect.signature(_m('exactpack.solvers.rmtv.timmes').rmtv), **kw):
            # keyword or positional call: the wiring is what is compared, bound by the real signature
            seen.update(_sig.bind(*args, **kw).arguments)
            return tuple(np.array([v]) for v in o)
        with patched(W, rmtv=rmtv):
            def run():
                sol = W.Rmtv(**p)._run(np.array([r]), t)
                names = ['position', 'density', 'temperature', 'energy', 'pressure', 'velocity']
                if list(sol.dtype.names) != names:
                    raise RuntimeError('field names %r' % (sol.dtype.names,))
                return [sol[nm][0] for nm in names] + [seen[a] for a in KW]
            res = _real(run)
        vals = dict(p, o_den=o[0], o_tev=o[1], o_ener=o[2], o_pres=o[3], o_vel=o[4], r=r, t=t)
        lines.append(_twin('RmtvWire', e, vals))
        exp.append(res)
        info.append(vals)
    _compare(st, 'RmtvWire', lines, exp, info)
    e = man['RmtvLoop']
    lines, exp, info = [], [], []
    for k in range(n):
        p = {a: rng.uniform(0.1, 9.0) for a in RMTV_ARGS[1:]}
        o = [rng.uniform(-2, 2) for _ in range(5)]
        r = rng.uniform(0.05, 3.0)
        seen = []

        def r1d(*a):
            seen.append(a)
            return tuple(o)
        with patched(T, rmtv_1d=r1d):
            def run():
                out = T.rmtv(np.array([r]), *[p[a] for a in RMTV_ARGS[1:]])
                return [float(v) for v in seen[0]] + [float(x[0]) for x in out]
            res = _real(run)
        vals = dict(p, s_d=o[0], s_t=o[1], s_e=o[2], s_p=o[3], s_v=o[4], r=r)
        lines.append(_twin('RmtvLoop', e, vals))
        exp.append(res)
        info.append(vals)
    _compare(st, 'RmtvLoop', lines, exp, info)


_TIE_CACHE = {}


def tie_models(rng, deep):
    """all generated models of targets/t_guderley.py; evaluated once per process and tier"""
    if deep in _TIE_CACHE:
        c = dict(_TIE_CACHE[deep])
        c['evaluations'] = 0
        c['distinct_nontrivial'] = 0
        return c
    man = _manifest()
    st = dict(evaluations=0, distinct_nontrivial=0, mismatches=[], samples=[], leaf_hist={})
    n = 60 if deep else 12
    _tie_gud_state(st, man, rng, 3 * n)
    _tie_gud_jump(st, man, rng, n)
    _tie_gud_x(st, man, rng, n)
    _tie_gud_rhs(st, man, rng, n)
    _tie_gud_residual(st, man, rng, n)
    _tie_gud_eexp(st, man, rng, n)
    _tie_gud_class(st, man, rng, n)
    _tie_rmtv(st, man, rng, n)
    _TIE_CACHE[deep] = st
    return st


# ======================================================================================
# oracle plumbing: explicit case counts (a Guderley set-up costs 0.3-1 s, so the generic
# time-budget loop of harness.oracle is not used)
# ======================================================================================

def make(gen, check, name, quick=3, deep=12, deep_only=False):
    nq, nd = quick, deep
    """gen(rng, deep) -> JSON-able case ; check(case) -> None | dict(site=, detail=) | list of those"""
    def run(rng, budget, deep, replay=None):
        res = dict(evaluations=0, failures=[], samples=[], worst=None, distinct_nontrivial=0)
        with quiet():
            if replay is not None:
                cases = [replay.get('case', replay)]
            elif deep_only and not deep:
                return res
            else:
                cases = [gen(rng, deep) for _ in range(nd if deep else nq)]
            for case in cases:
                f = check(case)
                res['evaluations'] += 1
                res['distinct_nontrivial'] += 1
                if len(res['samples']) < 1:
                    res['samples'].append(dict(oracle=name, case=case))
                for fl in ([f] if isinstance(f, dict) else (f or [])):
                    fl['case'] = case
                    fl.setdefault('oracle', name)
                    if fl.get('site') not in [x.get('site') for x in res['failures']]:
                        res['failures'].append(fl)
        return res
    run.__name__ = name
    return run


def relerr(a, b, floor=0.0):
    if not (math.isfinite(a) and math.isfinite(b)):
        return float('inf')
    return abs(a - b) / max(abs(a), abs(b), floor, 1e-300)


# ======================================================================================
# RMTV oracles (real public call)
# ======================================================================================
RMTV_PNAMES = ['aval', 'bval', 'chi0', 'gamma', 'bigamma', 'rf', 'xif', 'xis', 'beta0', 'g0']


def rmtv_fields(p, r):
    C = load(RCLS)[1]
    sol = C(**p)(np.atleast_1d(np.array(r, dtype=float)), 1.0)
    return {n: np.array(sol[n], dtype=float) for n in sol.dtype.names}


def rmtv_consts(p):
    """alpha, zeta, physical time and shock radius from the documented relations (Kamm 2000 Eqs. 28-33,
    as quoted in timmes.py), for the specification side of the oracles"""
    C = load(RCLS)[1]
    d = {k: getattr(C, k) for k in RMTV_PNAMES}
    d.update(p)
    a, b = d['aval'], d['bval']
    alpha = (2 * b - 2 * a + 1) / (2 * b - 5 * a + 3)
    zeta = (((0.5 * d['beta0'] * d['bigamma'] ** (b + 1) * d['g0'] ** (1 - a) / d['chi0']) ** (1 / (2 * b - 1))) / alpha) ** alpha
    tm = (d['rf'] / zeta / d['xif']) ** (1 / alpha)
    return d, alpha, zeta, tm


def _rmtv_gen(rng, deep):
    # physical parameters around the documented test problem; (beta0, xif, xis) is the tuned
    # eigen-solution of LA-UR-05-6865 and is kept, so is (a, b) it belongs to
    # (a, b, gamma, beta0, xif, xis) stay at the tuned values: beta0 is the eigenvalue for exactly those
    return dict(params=dict(bigamma=rng.uniform(0.5, 2.0), g0=rng.uniform(0.5, 2.0), chi0=rng.uniform(0.5, 2.0),
                            rf=rng.uniform(0.3, 2.0)),
                frac=sorted(rng.uniform(0.02, 1.05) for _ in range(6)))


def _rmtv_gen_eos(rng, deep):
    # the equation of state is algebra on one point: gamma is varied as well
    c = _rmtv_gen(rng, deep)
    c['params']['gamma'] = rng.choice([1.25, rng.uniform(1.15, 1.6)])
    return c


def _rmtv_eos_check(c):
    p = c['params']
    d, alpha, zeta, tm = rmtv_consts(p)
    f = rmtv_fields(p, [x * d['rf'] for x in c['frac']])
    out = []
    for i in range(len(c['frac'])):
        rho, T, e, P = (f[k][i] for k in ('density', 'temperature', 'energy', 'pressure'))
        if not all(map(math.isfinite, (rho, T, e, P))):
            continue
        if relerr(P, (d['gamma'] - 1) * rho * e) > 1e-12:
            out.append(dict(site='Rmtv:P=(gamma-1)*rho*e', detail='r=%r P=%r (gamma-1) rho e=%r' % (f['position'][i], P, (d['gamma'] - 1) * rho * e)))
        if relerr(P, d['bigamma'] * rho * T * 1e13) > 1e-12:
            out.append(dict(site='Rmtv:P=Gamma*rho*T', detail='r=%r P=%r Gamma rho T 1e13=%r' % (f['position'][i], P, d['bigamma'] * rho * T * 1e13)))
        if relerr(e, d['bigamma'] * T / (d['gamma'] - 1) * 1e13) > 1e-12:
            out.append(dict(site='Rmtv:e=Gamma*T/(gamma-1)', detail='r=%r e=%r Gamma T/(gamma-1) 1e13=%r' % (f['position'][i], e, d['bigamma'] * T / (d['gamma'] - 1) * 1e13)))
    return out


rmtv_eos = make(_rmtv_gen_eos, _rmtv_eos_check, 'guderley.rmtv_eos', quick=4, deep=40)


def rmtv_shock_position(p, steps=28):
    """the discontinuity of the returned density, located by bisection between the origin side and
    the heat front"""
    d, alpha, zeta, tm = rmtv_consts(p)
    grid = np.linspace(0.05 * d["rf"], 0.999 * d["rf"], 80)
    rho = rmtv_fields(p, grid)['density']
    j = int(np.argmax(np.abs(np.diff(np.log(rho)))))
    a, b = grid[j], grid[j + 1]
    ra, rb = rho[j], rho[j + 1]
    for _ in range(steps):
        m = 0.5 * (a + b)
        rm = rmtv_fields(p, [m])['density'][0]
        if abs(math.log(rm / ra)) < abs(math.log(rm / rb)):
            a, ra = m, rm
        else:
            b, rb = m, rm
    return 0.5 * (a + b)


JTOL = 1e-4       # calibrated: one-sided values at r_s (1 -/+ 1e-7) differ from the limits by <= 4e-6 relative


def _rmtv_jump_check(c):
    p = c['params']
    d, alpha, zeta, tm = rmtv_consts(p)
    rs = rmtv_shock_position(p)
    # speed implied by the placement at neighbouring times (time is a function of rf)
    h = 1e-4
    p1, p2 = dict(p, rf=d['rf'] * (1 - h)), dict(p, rf=d['rf'] * (1 + h))
    D = (rmtv_shock_position(p2) - rmtv_shock_position(p1)) / (rmtv_consts(p2)[3] - rmtv_consts(p1)[3]) * 1e8
    dl = 1e-7
    f = rmtv_fields(p, [rs * (1 - dl), rs * (1 + dl)])
    rho, u, P, T = f['density'], f['velocity'], f['pressure'], f['temperature']
    m = rho * (u - D)
    mom = rho * (u - D) ** 2 + P
    out = []
    if relerr(m[0], m[1]) > JTOL:
        out.append(dict(site='Rmtv:shock:mass', detail='r_s=%r D=%r mass flux %r | %r' % (rs, D, m[0], m[1])))
    if relerr(mom[0], mom[1]) > JTOL:
        out.append(dict(site='Rmtv:shock:momentum', detail='r_s=%r D=%r momentum flux %r | %r' % (rs, D, mom[0], mom[1])))
    if relerr(T[0], T[1]) > JTOL:
        out.append(dict(site='Rmtv:shock:isothermal', detail='r_s=%r T %r | %r' % (rs, T[0], T[1])))
    if not rho[0] > rho[1]:
        out.append(dict(site='Rmtv:shock:compressive', detail='r_s=%r rho %r | %r' % (rs, rho[0], rho[1])))
    return out


rmtv_jump = make(_rmtv_gen, _rmtv_jump_check, 'guderley.rmtv_jump', quick=1, deep=6)


def _d4(f, x, h):
    return (-f(x + 2 * h) + 8 * f(x + h) - 8 * f(x - h) + f(x - 2 * h)) / (12 * h)


def _rmtv_pde_check(c):
    """mass and momentum balance (spherical) by 4th-order differences of the public call; the time
    derivative is taken through rf (time = (rf/zeta/xif)^(1/alpha))"""
    p = c['params']
    d, alpha, zeta, tm = rmtv_consts(p)
    names = ('density', 'velocity', 'pressure')
    out = []
    rs = d['rf'] / d['xif']
    for x in c['frac'][:3]:
        r = x * d['rf']
        if abs(r / rs - 1) < 0.05 or r > 0.9 * d['rf'] or r < 0.1 * rs:
            continue
        worst = None
        for hh in (2e-3, 1e-3):
            def at(r_, rf_):
                f = rmtv_fields(dict(p, rf=rf_), [r_])
                return np.array([f[n][0] for n in names])
            f0 = at(r, d['rf'])
            fr = _d4(lambda y: at(y, d['rf']), r, hh * r)
            dtdrf = tm / (alpha * d['rf'])               # d time / d rf   [sh]
            ft = _d4(lambda y: at(r, y), d['rf'], hh * d['rf']) / (dtdrf * 1e-8)     # per second
            rho, u, P = f0
            terms = [ft[0], u * fr[0], rho * fr[1], 2 * rho * u / r]
            mass = abs(sum(terms)) / max(map(abs, terms))
            terms = [ft[1], u * fr[1], fr[2] / rho]
            mom = abs(sum(terms)) / max(map(abs, terms))
            cur = (mass, mom)
            worst = cur if worst is None else tuple(min(a, b) for a, b in zip(worst, cur))
        if worst[0] > 1e-5:
            out.append(dict(site='Rmtv:pde:mass', detail='r=%r relative residual %r' % (r, worst[0])))
        if worst[1] > 1e-5:
            out.append(dict(site='Rmtv:pde:momentum', detail='r=%r relative residual %r' % (r, worst[1])))
    return out


rmtv_pde = make(_rmtv_gen, _rmtv_pde_check, 'guderley.rmtv_pde', quick=1, deep=8)


def _rmtv_sim_check(c):
    """self-similarity: (r, rf) -> (s r, s rf) keeps xi; rho ~ s^kappa, u ~ s^(1-1/alpha), T ~ s^(2(1-1/alpha))"""
    p = c['params']
    d, alpha, zeta, tm = rmtv_consts(p)
    s = 1.0 + c['frac'][0]
    kappa = -((2 * d['bval'] - 1) * 3 + 2) / (2 * d['bval'] - 2 * d['aval'] + 1)
    r = [x * d['rf'] for x in c['frac']]
    f1 = rmtv_fields(p, r)
    f2 = rmtv_fields(dict(p, rf=s * d['rf']), [s * x for x in r])
    out = []
    for i in range(len(r)):
        for n, e in (('density', kappa), ('velocity', 1 - 1 / alpha), ('temperature', 2 * (1 - 1 / alpha)),
                     ('pressure', kappa + 2 * (1 - 1 / alpha))):
            a, b = f2[n][i], f1[n][i] * s ** e
            if relerr(a, b, floor=1e-30) > 1e-6:
                out.append(dict(site='Rmtv:similarity:' + n, detail='r=%r s=%r image %r, scaled %r' % (r[i], s, a, b)))
    return out


rmtv_similarity = make(_rmtv_gen, _rmtv_sim_check, 'guderley.rmtv_similarity', quick=2, deep=12)


def _rmtv_adm_check(c):
    p = c['params']
    d, alpha, zeta, tm = rmtv_consts(p)
    f = rmtv_fields(p, [x * d['rf'] for x in c['frac']])
    out = []
    for i in range(len(c['frac'])):
        for n in ('density', 'temperature', 'energy', 'pressure'):
            v = f[n][i]
            if not (math.isfinite(v) and (v > 0 if n == 'density' else v >= 0)):
                out.append(dict(site='Rmtv:sign:' + n, detail='r=%r %s=%r' % (f['position'][i], n, v)))
    return out


rmtv_admissible = make(_rmtv_gen, _rmtv_adm_check, 'guderley.rmtv_admissible', quick=3, deep=30)


def _rmtv_restr_gen(rng, deep):
    return dict(params=rng.choice([dict(aval=0.5), dict(aval=rng.uniform(0.05, 0.9))]),
                pts=[0.05, 0.3, 0.44, 0.46, 0.6])


def _rmtv_restr_check(c):
    """documented: chi = chi0 rho^a T^b 'where a <= 0 and b >= 1' (rmtv/__init__.py)"""
    C = load(RCLS)[1]
    try:
        s = C(**c['params'])
    except ValueError:
        return None
    except Exception as ex:
        return dict(site='Rmtv:a<=0:wrong-exception', detail='%s at construction' % type(ex).__name__)
    try:
        sol = s(np.array(c['pts']), 1.0)
    except Exception:
        return None          # loud at the call
    vals = [float(sol[n][i]) for n in sol.dtype.names for i in range(len(c['pts']))]
    if all(map(math.isfinite, vals)):
        return dict(site='Rmtv:a<=0-not-enforced',
                    detail='Rmtv(%r) is accepted and returns finite fields, e.g. density %r' % (c['params'], list(map(float, sol['density']))))
    return None


rmtv_restrictions = make(_rmtv_restr_gen, _rmtv_restr_check, 'guderley.rmtv_restrictions', quick=1, deep=3)


def _rmtv_status_gen(rng, deep):
    return dict(params=dict(gamma=rng.choice([1.4, 1.2, rng.uniform(1.3, 1.6)])), pts=[0.1, 0.3])


def _rmtv_status_check(c):
    """a failed ODE integration (scipy status -1) must not be turned into finite output"""
    T = _m(TIMMES)
    C = load(RCLS)[1]
    real = T.solve_ivp
    log = []

    def spy(f, span, y0, **kw):
        s = real(f, span, y0, **kw)
        log.append((s.status, float(s.t[-1]), float(span[1])))
        return s
    with patched(T, solve_ivp=spy):
        try:
            sol = C(**c['params'])(np.array(c['pts']), 1.0)
        except Exception:
            return None
    bad = [l for l in log if l[0] != 0]
    vals = [float(sol[n][i]) for n in sol.dtype.names for i in range(len(c['pts']))]
    if bad and all(map(math.isfinite, vals)):
        return dict(site='Rmtv:integration-failure-ignored',
                    detail='Rmtv(%r): solve_ivp status %d, stopped at eta=%r instead of %r; returned density %r'
                           % (c['params'], bad[0][0], bad[0][1], bad[0][2], list(map(float, sol['density']))))
    return None


rmtv_integration = make(_rmtv_status_gen, _rmtv_status_check, 'guderley.rmtv_integration', quick=1, deep=3)


# ======================================================================================
# Guderley oracles
# ======================================================================================
_LAMBDA_MEMO = {}       # (n, gamma) -> lambda computed by the REAL eexp in this process (thorough tier)
_B_MEMO = {}
_REAL = {}


def _real_fns():
    if not _REAL:
        R = _m(RAMSEY)
        _REAL['eexp'] = R.eexp
        _REAL['gsp'] = R.get_shock_position
    return _REAL


class gud_fast(object):
    """the public Guderley call with the two per-call eigenvalue computations memoised:
    eexp(n, gamma) -> published table value (or the memoised real value when the thorough tier has
    computed it), get_shock_position -> real function, memoised per (n, gamma, lambda)"""

    def __enter__(self):
        R = _m(RAMSEY)
        real = _real_fns()

        def eexp(n, g):
            if (n, g) in _LAMBDA_MEMO:
                return _LAMBDA_MEMO[(n, g)]
            if (n, g) in ALPHA_TABLE:
                return 1.0 / ALPHA_TABLE[(n, g)]
            return real['eexp'](n, g)          # loud failures (ValueError) and unknown pairs: the real thing

        def gsp(n, g, lam):
            k = (n, g, lam)
            if k not in _B_MEMO:
                _B_MEMO[k] = real['gsp'](n, g, lam)
            return _B_MEMO[k]
        self.p = patched(R, eexp=eexp, get_shock_position=gsp)
        self.p.__enter__()
        return self

    def __exit__(self, *a):
        return self.p.__exit__(*a)


def gud_lambda_B(n, g):
    with gud_fast():
        R = _m(RAMSEY)
        lam = R.eexp(n, g)
        return lam, R.get_shock_position(n, g, lam)


def gud_fields(p, r, t):
    C = load(GCLS)[1]
    with gud_fast():
        sol = C(**p)(np.atleast_1d(np.array(r, dtype=float)), t)
    return {n: np.array(sol[n], dtype=float) for n in sol.dtype.names}


GNAMES = ('density', 'velocity', 'pressure', 'sound_speed', 'specific_internal_energy')


def _gud_case(rng, deep, region=None):
    n, g = rng.choice(sorted(ALPHA_TABLE))
    lam, B = 1.0 / ALPHA_TABLE[(n, g)], None
    p = dict(geometry=n, gamma=g, rho0=rng.choice([1.0, rng.uniform(0.3, 4.0)]))
    # similarity coordinate away from the shocks and from the focus (x = 0, where V/x loses its digits)
    reg = region or rng.choice(['pre', 'pre', 'mid', 'post'])
    return dict(params=p, region=reg, u=rng.uniform(0.0, 1.0), r=rng.uniform(0.3, 1.5))


def _gud_point(c):
    """(r, t) realising the case's region: x in (-0.95,-0.05) | (0.05, 0.9 B) | (1.1 B, 3 B)"""
    p = c['params']
    lam, B = gud_lambda_B(p['geometry'], p['gamma'])
    x = {'pre': -0.95 + 0.9 * c['u'], 'mid': (0.05 + 0.85 * c['u']) * B, 'post': (1.1 + 1.9 * c['u']) * B}[c['region']]
    r = c['r']
    tL = x * r ** lam
    return r, FC * (tL + 1.0), lam, B, x


def _gud_eos_check(c):
    p = c['params']
    r, t, lam, B, x = _gud_point(c)
    f = gud_fields(p, [r, 0.7 * r, 1.3 * r], t)
    out = []
    for i in range(3):
        rho, u, P, cs, e = (f[k][i] for k in GNAMES)
        if not all(map(math.isfinite, (rho, u, P, cs, e))):
            continue
        if relerr(P, (p['gamma'] - 1) * rho * e, floor=1e-300) > 1e-12:
            out.append(dict(site='Guderley:p=(gamma-1)*rho*e', detail='r=%r t=%r p=%r (gamma-1) rho e=%r' % (f['position'][i], t, P, (p['gamma'] - 1) * rho * e)))
        if relerr(cs ** 2, p['gamma'] * P / rho) > 1e-12:
            out.append(dict(site='Guderley:c^2=gamma*p/rho', detail='r=%r t=%r c^2=%r gamma p/rho=%r' % (f['position'][i], t, cs ** 2, p['gamma'] * P / rho)))
    return out


gud_eos = make(_gud_case, _gud_eos_check, 'guderley.gud_eos', quick=3, deep=30)

STOL = 1e-9      # calibrated on the unchanged tree: worst 8e-16 (both calls integrate the same ODE to the same x)


def _gud_sim_check(c):
    p = c['params']
    r, t, lam, B, x = _gud_point(c)
    s = 0.5 + 1.5 * c['u']
    t2 = FC * (s ** lam * (t / FC - 1.0) + 1.0)
    f1 = gud_fields(p, [r], t)
    f2 = gud_fields(p, [s * r], t2)
    out = []
    for n, e in (('density', 0.0), ('velocity', 1 - lam), ('sound_speed', 1 - lam), ('pressure', 2 * (1 - lam)),
                 ('specific_internal_energy', 2 * (1 - lam))):
        a, b = f2[n][0], f1[n][0] * s ** e
        if relerr(a, b, floor=1e-30) > STOL:
            out.append(dict(site='Guderley:similarity:' + n, detail='(r,t)=(%r,%r) s=%r image %r, scaled %r' % (r, t, s, a, b)))
    return out


gud_similarity = make(_gud_case, _gud_sim_check, 'guderley.gud_similarity', quick=3, deep=30)


def _gud_residuals(p, r, t, tscale):
    """relative residuals (mass, momentum, energy) of the documented Euler equations at (r, t) by 4th-order
    differences of the public call; `tscale` = d(time used in the equations)/d(solver time argument)"""
    k = p['geometry'] - 1
    best = None
    for hh in (2e-3, 1e-3):
        def at(r_, t_):
            f = gud_fields(p, [r_], t_)
            return np.array([f[n][0] for n in GNAMES])
        f0 = at(r, t)
        fr = _d4(lambda y: at(y, t), r, hh * r)
        ft = _d4(lambda y: at(r, y), t, hh) / tscale
        rho, u, P, cs, e = f0
        t1 = [ft[0], u * fr[0], rho * fr[1], k * rho * u / r]
        t2 = [ft[1], u * fr[1], fr[2] / rho]
        t3 = [ft[4], u * fr[4], P / rho * fr[1], P / rho * k * u / r]
        cur = tuple(abs(sum(tt)) / max(map(abs, tt)) for tt in (t1, t2, t3))
        best = cur if best is None else tuple(min(a, b) for a, b in zip(best, cur))
    return best


PTOL = 1e-6       # calibrated on the unchanged tree in Lazarus time (worst 2.4e-8 over 40 cases), 40x margin


def _gud_pde_lazarus_check(c):
    p = c['params']
    r, t, lam, B, x = _gud_point(c)
    res = _gud_residuals(p, r, t, 1.0 / FC)       # d t_L / d t = 1 / 0.750024322
    out = []
    for nm, v in zip(('mass', 'momentum', 'energy'), res):
        if not v <= PTOL:
            out.append(dict(site='Guderley:pde-lazarus-time:' + nm, detail='(r,t)=(%r,%r) x=%r relative residual %r' % (r, t, x, v)))
    return out


def _gud_pde_solver_check(c):
    p = c['params']
    r, t, lam, B, x = _gud_point(c)
    res = _gud_residuals(p, r, t, 1.0)
    if max(res) > 1e-3:
        return dict(site='Guderley:pde-solver-time',
                    detail='(r,t)=(%r,%r) x=%r: relative residuals (mass, momentum, energy) %r with d/dt of the '
                           'time argument; with d/dt_L they are %r' % (r, t, x, res, _gud_residuals(p, r, t, 1.0 / FC)))
    return None


gud_pde_lazarus = make(_gud_case, _gud_pde_lazarus_check, 'guderley.gud_pde_lazarus', quick=2, deep=16)
gud_pde_solver = make(_gud_case, _gud_pde_solver_check, 'guderley.gud_pde_solver', quick=1, deep=4)


def _gud_shock_r(p, t, lo, hi, steps=44):
    """position of the density discontinuity between lo and hi at solver time t (bisection on the
    returned density: which side of the jump is the midpoint on)"""
    ra, rb = (gud_fields(p, [y], t)['density'][0] for y in (lo, hi))
    a, b = lo, hi
    for _ in range(steps):
        m = 0.5 * (a + b)
        rm = gud_fields(p, [m], t)['density'][0]
        if abs(math.log(rm / ra)) < abs(math.log(rm / rb)):
            a, ra = m, rm
        else:
            b, rb = m, rm
    return 0.5 * (a + b)


def _gud_rh(c):
    """one-sided states and shock speeds (per unit of solver time, by central differences of the located
    position) at the converging (t_L < 0) or reflected (t_L > 0) shock"""
    p = c['params']
    lam, B = gud_lambda_B(p['geometry'], p['gamma'])
    if c['region'] == 'pre':
        tL = -(0.2 + 0.7 * c['u'])
        guess = (-tL) ** (1 / lam)
    else:
        tL = 0.2 + 1.5 * c['u']
        guess = (tL / B) ** (1 / lam)
    t = FC * (tL + 1.0)
    dt = 1e-4
    X = [_gud_shock_r(p, tt, 0.8 * guess, 1.25 * guess) for tt in (t - dt, t, t + dt)]
    D = (X[2] - X[0]) / (2 * dt)
    dl = 1e-7
    f = gud_fields(p, [X[1] * (1 - dl), X[1] * (1 + dl)], t)
    return f, X[1], D, t


RTOL = 1e-4


def _rh_failures(f, D, tag, what):
    rho, u, P, e = (f[k] for k in ('density', 'velocity', 'pressure', 'specific_internal_energy'))
    m = rho * (u - D)
    mom = rho * (u - D) * u + P
    en = rho * (u - D) * (e + 0.5 * u ** 2) + P * u
    sc_m = max(abs(m[0]), abs(m[1]))
    sc_mom = max(abs(rho[i] * (u[i] - D) ** 2) + abs(P[i]) for i in (0, 1))
    sc_en = max(abs(rho[i] * (u[i] - D)) * (e[i] + 0.5 * u[i] ** 2 + 0.5 * (u[i] - D) ** 2) + abs(P[i] * u[i]) for i in (0, 1))
    out = []
    for nm, v, sc in (('mass', m, sc_m), ('momentum', mom, sc_mom), ('energy', en, sc_en)):
        if abs(v[0] - v[1]) / sc > RTOL:
            out.append(dict(site='Guderley:%s:%s' % (tag, nm), detail='%s: flux %r | %r (scale %r)' % (what, v[0], v[1], sc)))
    return out


def _gud_rh_check(c):
    f, X, D, t = _gud_rh(c)
    tag = 'converging-shock' if c['region'] == 'pre' else 'reflected-shock'
    out = _rh_failures(f, D * FC, tag, 'r_s=%r t=%r speed per unit Lazarus time %r' % (X, t, D * FC))
    rho, P = f['density'], f['pressure']
    # compressive: the material crosses the converging shock outwards -> inwards (it is overtaken from outside),
    # the reflected shock from inside to outside: behind = inner side for the reflected, outer side for the converging one
    behind, ahead = (1, 0) if c['region'] == 'pre' else (0, 1)
    if not (rho[behind] > rho[ahead] and P[behind] > P[ahead]):
        out.append(dict(site='Guderley:%s:compressive' % tag, detail='rho %r | %r, p %r | %r' % (rho[0], rho[1], P[0], P[1])))
    return out


def _gud_rh_solver_check(c):
    f, X, D, t = _gud_rh(c)
    bad = _rh_failures(f, D, 'shock-speed-solver-time', 'x')
    if bad:
        return dict(site='Guderley:shock-speed-solver-time',
                    detail='r_s=%r t=%r: with the speed dr_s/dt=%r implied by the placement at neighbouring times '
                           'the jump conditions fail (%s); with dr_s/dt * 0.750024322 they hold'
                           % (X, t, D, '; '.join(b['detail'] for b in bad)[:300]))
    return None


def _gud_case_shock(rng, deep):
    return _gud_case(rng, deep, region=rng.choice(['pre', 'post']))


gud_rh = make(_gud_case_shock, _gud_rh_check, 'guderley.gud_rh', quick=1, deep=8)
gud_rh_conv = make(lambda rng, deep: _gud_case(rng, deep, region='pre'), _gud_rh_check, 'guderley.gud_rh_conv', quick=1, deep=6)
gud_rh_refl = make(lambda rng, deep: _gud_case(rng, deep, region='post'), _gud_rh_check, 'guderley.gud_rh_refl', quick=1, deep=6)
gud_rh_solver = make(_gud_case_shock, _gud_rh_solver_check, 'guderley.gud_rh_solver', quick=1, deep=3)


def _gud_units_check(c):
    """mass unit (through rho0) and the similarity subgroup T = L^lambda in Lazarus time"""
    p = c['params']
    r, t, lam, B, x = _gud_point(c)
    M, L = 0.5 + 3 * c['u'], 0.6 + 1.1 * c['u']
    T = L ** lam
    t2 = FC * (T * (t / FC - 1.0) + 1.0)
    f1 = gud_fields(p, [r], t)
    f2 = gud_fields(dict(p, rho0=p['rho0'] * M / L ** 3), [L * r], t2)
    out = []
    for n, fac in (('density', M / L ** 3), ('velocity', L / T), ('sound_speed', L / T), ('pressure', M / (L * T ** 2)),
                   ('specific_internal_energy', (L / T) ** 2)):
        a, b = f2[n][0], f1[n][0] * fac
        if relerr(a, b, floor=1e-30) > STOL:
            out.append(dict(site='Guderley:units:' + n, detail='(r,t)=(%r,%r) M=%r L=%r T=L^lambda: scaled call %r, scaled output %r' % (r, t, M, L, a, b)))
    return out


def _gud_units_lt_check(c):
    """an independent change of the unit of length (T = 1, M = 1): FINDING"""
    p = c['params']
    lam, B = gud_lambda_B(p['geometry'], p['gamma'])
    r, t, L = 0.5, FC / 2, 2.0
    f1 = gud_fields(p, [r], t)
    f2 = gud_fields(dict(p, rho0=p['rho0'] / L ** 3), [L * r], t)
    a, b = f2['density'][0], f1['density'][0] / L ** 3
    if relerr(a, b) > 1e-6:
        return dict(site='Guderley:length-time-units',
                    detail='rho0=%r: density at (r,t)=(%r,%r) is %r (ahead of the shock); the same point with a length unit '
                           'half as long, (r,t)=(%r,%r), rho0/8: solver returns %r, re-expressed output would be %r'
                           % (p['rho0'], r, t, f1['density'][0], L * r, t, a, b))
    return None


gud_units = make(_gud_case, _gud_units_check, 'guderley.gud_units', quick=3, deep=30)
gud_units_lt = make(_gud_case, _gud_units_lt_check, 'guderley.gud_units_lt', quick=1, deep=3)


def _gud_adm_check(c):
    p = c['params']
    r, t, lam, B, x = _gud_point(c)
    f = gud_fields(p, [0.6 * r, r, 1.7 * r, 3.0 * r], t)
    out = []
    for i in range(4):
        for n in GNAMES:
            v = f[n][i]
            ok = math.isfinite(v) and (v > 0 if n == 'density' else (True if n == 'velocity' else v >= 0))
            if not ok:
                out.append(dict(site='Guderley:sign:' + n, detail='(r,t)=(%r,%r) %s=%r' % (f['position'][i], t, n, v)))
    return out


gud_admissible = make(_gud_case, _gud_adm_check, 'guderley.gud_admissible', quick=3, deep=30)


def _gud_reject_gen(rng, deep):
    return dict(params=rng.choice([dict(geometry=1), dict(geometry=4), dict(gamma=1.0), dict(gamma=1.00001), dict(gamma=9999.0),
                                   dict(gamma=20000.0), dict(geometry=2, gamma=1.005), dict(gamma=0.9)]))


def _gud_reject_check(c):
    """documented: geometry '1=planar, 2=cylindrical, 3=spherical'; eexp: n in (2, 3), 1.00001 < gamma < 9999.
    Construction accepts everything; the first call must raise ValueError (never another class, never numbers)."""
    C = load(GCLS)[1]
    try:
        s = C(**c['params'])
    except ValueError:
        return None
    except Exception as ex:
        return dict(site='Guderley:reject:wrong-exception', detail='%r: %s at construction' % (c['params'], type(ex).__name__))
    try:
        sol = s(np.array([0.5]), 0.5)
    except ValueError:
        return None
    except Exception as ex:
        return dict(site='Guderley:reject:wrong-exception', detail='%r: %s at the first call' % (c['params'], type(ex).__name__))
    return dict(site='Guderley:reject:accepted', detail='%r returns %r' % (c['params'], float(sol['density'][0])))


gud_reject = make(_gud_reject_gen, _gud_reject_check, 'guderley.gud_reject', quick=4, deep=12)


def _gud_finite_check(c):
    p = c['params']
    r, t, lam, B, x = _gud_point(c)
    f = gud_fields(p, [0.3 * r, r, 2.5 * r], t)
    out = []
    for n in GNAMES:
        if not all(map(math.isfinite, f[n])):
            out.append(dict(site='Guderley:nonfinite:' + n, detail='(r,t)=(%r,%r): %r' % (r, t, list(f[n]))))
    return out


gud_finite = make(_gud_case, _gud_finite_check, 'guderley.gud_finite', quick=3, deep=30)


def _gud_focus_check(c):
    """t = 0.750024322 is the focusing time (x = 0): the flow at r > 0 is finite, the solver divides by x"""
    p = c['params']
    f = gud_fields(p, [0.5, 1.0], FC)
    bad = [n for n in GNAMES if not all(map(math.isfinite, f[n]))]
    if bad:
        return dict(site='Guderley:focus-time-nonfinite',
                    detail='Guderley(%r)([0.5, 1.0], 0.750024322): %s' % (p, ', '.join('%s=%r' % (n, list(f[n])) for n in bad)))
    return None


gud_focus = make(_gud_case, _gud_focus_check, 'guderley.gud_focus', quick=1, deep=3)


def _gud_real_gen(rng, deep):
    return dict(params=dict(), pts=[0.4, 0.8, 1.3], t=rng.choice([0.3, 1.2]))


def _gud_real_check(c):
    """THOROUGH tier only: one unpatched public call (real eexp, ~1-3 minutes); its exponent is memoised
    for the rest of the process, compared with the published table, and the call with the table value
    must agree with it"""
    C = load(GCLS)[1]
    R = _m(RAMSEY)
    real = _real_fns()
    seen = {}

    def eexp(n, g):
        if (n, g) not in _LAMBDA_MEMO:
            _LAMBDA_MEMO[(n, g)] = real['eexp'](n, g)
        seen['lam'] = _LAMBDA_MEMO[(n, g)]
        return seen['lam']
    s = C(**c['params'])
    with patched(R, eexp=eexp):
        sol = s(np.array(c['pts']), c['t'])
    key = (s.geometry, s.gamma)
    out = []
    if key in ALPHA_TABLE and relerr(1.0 / seen['lam'], ALPHA_TABLE[key]) > 5e-8:
        out.append(dict(site='Guderley:eexp-vs-published', detail='%r: 1/lambda=%r, published %r' % (key, 1.0 / seen['lam'], ALPHA_TABLE[key])))
    _LAMBDA_MEMO.pop(key, None)
    ref = gud_fields(c['params'], c['pts'], c['t'])          # with the table value
    _LAMBDA_MEMO[key] = seen['lam']
    for n in GNAMES:
        for i in range(len(c['pts'])):
            if relerr(float(sol[n][i]), ref[n][i], floor=1e-30) > 1e-5:
                out.append(dict(site='Guderley:real-vs-table-call:' + n, detail='r=%r t=%r real %r table %r' % (c['pts'][i], c['t'], float(sol[n][i]), ref[n][i])))
    return out


gud_real = make(_gud_real_gen, _gud_real_check, 'guderley.gud_real', quick=0, deep=1, deep_only=True)


def _rmtv_xis_gen(rng, deep):
    return dict(params=dict(xis=rng.choice([0.8, rng.uniform(0.6, 0.9)])))


def _rmtv_xis_check(c):
    """'xis': 'dimensionless position of the shock front' — the discontinuity of the returned fields should
    sit at xi = xis, i.e. r = rf xis / xif"""
    p = c['params']
    d, alpha, zeta, tm = rmtv_consts(p)
    rs = rmtv_shock_position(p)
    want = d['rf'] * d['xis'] / d['xif']
    if relerr(rs, want) > 1e-4:
        return dict(site='Rmtv:xis-ignored',
                    detail='Rmtv(xis=%r): the returned density jumps at r=%r (xi=%r), not at rf*xis/xif=%r'
                           % (d['xis'], float(rs), float(rs * d['xif'] / d['rf']), want))
    return None


rmtv_xis = make(_rmtv_xis_gen, _rmtv_xis_check, 'guderley.rmtv_xis', quick=1, deep=3)
