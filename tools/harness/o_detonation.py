"""Detonation / piston family (EHEP, Mader, SDRZ, EP piston): ties and oracles.

TIES (model vs real code, same inputs; the model side runs in Lean):
  tie_ehep          Float twin of `EHEP` (constructor + region formulas, region = atom) vs the public call;
                    the region atom is fed with the region string the real call returned
  tie_ehep_init     Float twin of `EHEPInit` vs the real constructor's `ttilde` and polygon corners
  tie_ehep_region   hand model EPV/Model/EHEP.lean (half-planes) vs the real polygon test, incl. boundary points
  tie_mader_rare    Float twin of `MaderRare` vs the real `rarefaction.rare`
  tie_mader_cells   hand model EPV/Model/Mader.lean (cell loop: dx from the batch, t <= 0 -> NaN) vs the public call
  tie_sdrz          Float twins of `SDRZProfile` / `SDRZTail` vs the real `run_tvec` on grids
  tie_sdrz_interp   hand model EPV/Model/SDRZ.lean (interpolation back to x, masks) vs the public call
  tie_eppiston      Float twins of `EPPiston{Hypo,Ifin,Fin}` (let-normal form): every definition evaluated at the
                    real attribute values reproduces the real attribute; the fsolve residuals vanish
  tie_eppiston_run  Float twin of `EPPistonRun` vs the public call on a batch [x, xmax]

ORACLES (numeric checks of the properties on the real code) are further down, one block per property.
Failure sites are '<Solver>:<what>'."""
import json
import math
import os
import warnings

import numpy as np

from . import lean_io
from . import oracle as O
from py2lean.trace import load

ROOT = os.path.dirname(os.path.dirname(os.path.dirname(os.path.abspath(__file__))))
EHEP = 'exactpack.solvers.ehep.ehep:EscapeOfHEProducts'
MADER = 'exactpack.solvers.mader.timmes:Mader'
SDRZ = 'exactpack.solvers.sdrz.sdrz:SteadyDetonationReactionZone'
EPP = 'exactpack.solvers.ep_piston.ep_piston:EPpiston'
EHEP_CODE = {'I': 1, 'II': 2, 'III': 3, 'IV': 4, 'V': 5, '00': 6, '0V': 7, '0H': 8, None: 0, 'None': 0}


def _manifest():
    return json.load(open(os.path.join(ROOT, 'lean', 'EPV', 'Gen', 'gen_manifest.json')))


def _quiet():
    warnings.simplefilter('ignore')
    return np.errstate(all='ignore')


def twin(name, cases, man=None):
    """evaluate the generated Float twin `name` on a list of dicts (symbol -> float);
    returns a list of (tag, {field: value})"""
    man = man or _manifest()
    e = man[name]
    order = e['params'] + e['pvars'] + ([e['tvar']] if e['tvar'] else [])
    lines = [name + ' ' + ' '.join(lean_io.bits(c[a]) for a in order) for c in cases]
    outs = lean_io.run_lines(lines) if lines else []
    res = []
    for line in outs:
        tag, vals = lean_io.parse_result(line)
        res.append((tag, dict(zip(e['fields'], vals))))
    return res


def close(a, b, rtol=1e-11, atol=0.0):
    if a is None or b is None:
        return True
    fa, fb = math.isfinite(a), math.isfinite(b)
    if not fa or not fb:
        return (not fa) and (not fb)
    return abs(a - b) <= rtol * max(abs(a), abs(b)) + atol + 1e-300


def _stats():
    return dict(evaluations=0, distinct_nontrivial=0, mismatches=[], samples=[], hist={})


def _note(st, key):
    st['hist'][key] = st['hist'].get(key, 0) + 1


# ==========================================================================
# parameter generators
# ==========================================================================

def ehep_params(rng, valid=True):
    D = rng.uniform(0.3, 2.0)
    p = dict(D=D, rho_0=rng.uniform(0.5, 4.0), up=rng.choice([rng.uniform(0.0, 0.3), rng.uniform(0.0, 0.95)]) * D / 4.0, xtilde=rng.uniform(0.4, 2.5),
             gamma=3.0)
    p['xmax'] = p['xtilde'] * rng.uniform(4.0, 12.0)
    p['tmax'] = p['xmax'] / D * rng.uniform(1.0, 3.0)
    if not valid:
        k = rng.choice(['D', 'rho_0', 'up-', 'up+', 'xtilde', 'xmax', 'tmax', 'gamma'])
        if k == 'D':
            p['D'] = rng.choice([0.0, -D])
        elif k == 'rho_0':
            p['rho_0'] = rng.choice([0.0, -1.0])
        elif k == 'up-':
            p['up'] = -rng.uniform(1e-6, 1.0)
        elif k == 'up+':
            p['up'] = p['D'] / (p['gamma'] + 1) * rng.choice([1.0, 1.5])
        elif k == 'xtilde':
            p['xtilde'] = rng.choice([0.0, -1.0])
        elif k == 'xmax':
            p['xmax'] = p['xtilde'] * rng.uniform(0.1, 0.99)
        elif k == 'tmax':
            p['tmax'] = rng.choice([0.0, -1.0])
        else:
            p['gamma'] = rng.choice([1.4, 2.0, 5.0 / 3.0])
    return p


def ehep_point(rng, p):
    """a point of the (x, t) diagram: mostly inside the modelled window, all regions"""
    D = p['D'] if p['D'] > 0 else 1.0
    xt = p['xtilde'] if p['xtilde'] > 0 else 1.0
    tt = xt / D
    u = rng.random()
    if u < 0.25:        # below the arrival of the front at the HE surface: regions I, III, 0H, 0V
        t = rng.uniform(0.05, 1.5) * tt
        x = rng.uniform(0.0, 1.15) * D * t
    elif u < 0.7:
        t = rng.uniform(0.05, 5.0) * tt
        x = rng.uniform(-0.1, 1.25) * max(D * t, xt)
    elif u < 0.9:
        t = rng.uniform(0.02, 1.0) * abs(p['tmax'])
        x = rng.uniform(-0.1, 1.1) * abs(p['xmax'])
    else:
        t = rng.uniform(-0.2, 1.3) * p['tmax']
        x = rng.uniform(-0.2, 1.3) * p['xmax']
    return x, t


def mader_params(rng, gamma3=False):
    return dict(p_cj=rng.uniform(1e11, 6e11), d_cj=rng.uniform(4e5, 1.2e6),
                gamma=3.0 if gamma3 else rng.choice([3.0, 3.0, rng.uniform(1.2, 4.0)]),
                u_piston=rng.choice([0.0, 0.0, rng.uniform(0.0, 5e4)]))


def sdrz_params(rng):
    return dict(D=rng.uniform(0.3, 2.0), rho_0=rng.uniform(0.5, 4.0), gamma=rng.uniform(1.2, 4.0))


def epp_params(rng, model=None):
    return dict(model=model or rng.choice(['hypo', 'hyperIfin', 'hyperFin']),
                gamma=rng.uniform(1.5, 2.5), c0=rng.uniform(0.4, 0.7), s0=rng.uniform(1.1, 1.6),
                G=rng.uniform(0.2, 0.4), Y=rng.uniform(0.001, 0.004), rho0=rng.uniform(2.0, 4.0),
                up=rng.uniform(0.004, 0.03))


# ==========================================================================
# ties
# ==========================================================================

def _ehep_call(p, pts, t):
    """public call -> (tag, list of records) ; tag 'ok' | 'raise:<Exc>'"""
    _, cls = load(EHEP)
    try:
        with _quiet():
            s = cls(**p)
            sol = s(np.array(pts, dtype=float), float(t))
    except Exception as ex:
        return 'raise:' + type(ex).__name__, []
    recs = []
    for i in range(len(pts)):
        recs.append({n: (sol[n][i] if n == 'region' else float(sol[n][i])) for n in sol.dtype.names})
    return 'ok', recs


def tie_ehep(rng, deep):
    """Float twin of EHEP (region = atom, fed from the real call) vs the public call"""
    st = _stats()
    n = 400 if deep else 90
    cases, real = [], []
    for i in range(n):
        p = ehep_params(rng, valid=(i % 6 != 0))
        x, t = ehep_point(rng, p)
        tag, recs = _ehep_call(p, [x], t)
        reg = EHEP_CODE[str(recs[0]['region'])] if recs else float(rng.randrange(0, 9))
        c = dict(p)
        c.update(region=float(reg), x=x, t=t)
        cases.append(c)
        real.append((tag, recs[0] if recs else None, p, x, t))
    outs = twin('EHEP', cases)
    for (mtag, mf), (rtag, rec, p, x, t) in zip(outs, real):
        st['evaluations'] += 1
        kind = mtag.split(':')[0]
        bad = None
        if kind == 'raise':
            if rtag != 'raise:' + mtag.split(':')[2]:
                bad = 'model %s, code %s' % (mtag, rtag)
            _note(st, 'raise')
        elif rtag != 'ok':
            bad = 'model %s, code %s' % (mtag, rtag)
        else:
            _note(st, 'region ' + str(rec['region']))
            st['distinct_nontrivial'] += 1
            for f in ('position', 'density', 'pressure', 'specific_internal_energy', 'sound_speed', 'velocity'):
                if not close(rec[f], mf[f]):
                    bad = 'field %s: code %r model %r (region %s)' % (f, rec[f], mf[f], rec['region'])
                    break
        if bad:
            st['mismatches'].append(dict(model='EHEP', params=p, x=x, t=t, why=bad))
        if len(st['samples']) < 2:
            st['samples'].append(dict(model='EHEP', params=p, x=x, t=t, outcome=mtag))
    return st


def tie_ehep_init(rng, deep):
    from py2lean.targets.t_detonation import EHEP_CORNERS
    st = _stats()
    _, cls = load(EHEP)
    n = 200 if deep else 40
    cases, real = [], []
    for i in range(n):
        p = ehep_params(rng, valid=(i % 5 != 0))
        try:
            s = cls(**p)
            vals = {'ttilde': s.ttilde}
            for r, k in EHEP_CORNERS:
                vals['c%s_%d_x' % (r, k)] = float(s.corners[r][k][0])
                vals['c%s_%d_t' % (r, k)] = float(s.corners[r][k][1])
            real.append(('ok', vals, p))
        except Exception as ex:
            real.append(('raise:' + type(ex).__name__, None, p))
        cases.append(p)
    for (mtag, mf), (rtag, vals, p) in zip(twin('EHEPInit', cases), real):
        st['evaluations'] += 1
        bad = None
        if mtag.startswith('raise'):
            if rtag != 'raise:' + mtag.split(':')[2]:
                bad = 'model %s, code %s' % (mtag, rtag)
        elif rtag != 'ok':
            bad = 'model %s, code %s' % (mtag, rtag)
        else:
            st['distinct_nontrivial'] += 1
            for k, v in vals.items():
                if not close(v, mf[k]):
                    bad = '%s: code %r model %r' % (k, v, mf[k])
                    break
        if bad:
            st['mismatches'].append(dict(model='EHEPInit', params=p, why=bad))
        if len(st['samples']) < 1:
            st['samples'].append(dict(model='EHEPInit', params=p, outcome=mtag))
    return st


def tie_mader_rare(rng, deep):
    _, rare = load('exactpack.solvers.mader.rarefaction:rare')
    st = _stats()
    n = 600 if deep else 150
    cases, real = [], []
    for i in range(n):
        p = mader_params(rng)
        time = rng.uniform(1e-6, 8e-6)
        L = p['d_cj'] * time
        dx = L / rng.choice([5, 11, 40, 200, 1000])
        um = -p['d_cj'] / (p['gamma'] + 1.0)
        xp = 0.5 * (p['gamma'] + 1.0) * time * (p['u_piston'] - um)
        if i % 3 == 0:      # aim at the transition cell
            xlab = L - xp + rng.uniform(-0.25, 0.25) * dx
        else:
            xlab = rng.uniform(0.0, 1.0) * L
        with _quiet():
            r = rare(time, xlab, dx, p['p_cj'], p['d_cj'], p['gamma'], p['u_piston'])
        real.append(([float(v) for v in r], p, time, xlab, dx))
        cases.append(dict(d_cj=p['d_cj'], dx=dx, gam=p['gamma'], p_cj=p['p_cj'], u_piston=p['u_piston'],
                          xlab=xlab, time=time))
    names = ['velocity', 'pressure', 'sound_speed', 'density', 'xdet']
    for (mtag, mf), (rv, p, time, xlab, dx) in zip(twin('MaderRare', cases), real):
        st['evaluations'] += 1
        _note(st, mtag)
        bad = None
        if not mtag.startswith('ok'):
            bad = 'model %s, code returned numbers' % mtag
        else:
            st['distinct_nontrivial'] += 1
            for k, v in zip(names, rv):
                # differences of nearly equal powers: compare with an absolute floor from the cancelling terms
                if not close(v, mf[k], rtol=1e-9):
                    bad = '%s: code %r model %r' % (k, v, mf[k])
                    break
        if bad:
            st['mismatches'].append(dict(model='MaderRare', params=p, time=time, xlab=xlab, dx=dx, why=bad))
        if len(st['samples']) < 2:
            st['samples'].append(dict(model='MaderRare', params=p, time=time, xlab=xlab, dx=dx, outcome=mtag))
    return st


SDRZ_F = ['pressure', 'velocity', 'density', 'sound_speed', 'reaction_progress', 'position_relative', 'position']


def tie_sdrz(rng, deep):
    """Float twins of the profile models vs `run_tvec` on whole grids: entries with t_i <= 1 against
    SDRZProfile (position = D t_last - x_rel), entries behind t = 1 against SDRZTail on grids that contain 1.0"""
    _, cls = load(SDRZ)
    st = _stats()
    n = 60 if deep else 14
    cases, real = [], []
    for i in range(n):
        p = sdrz_params(rng)
        s = cls(**p)
        if i % 2 == 0:
            T = rng.choice([1.0, rng.uniform(0.05, 1.0)])
            tv = np.linspace(0.0, T, rng.choice([7, 21, 201]))
            model = 'SDRZProfile'
            idx = range(len(tv))
        else:
            T = rng.uniform(1.05, 3.0)
            tv = np.array(sorted(set([0.0, 1.0, T] + [rng.uniform(0, T) for _ in range(6)])))
            model = 'SDRZTail'
            idx = [j for j in range(len(tv)) if tv[j] >= 1.0]
        with _quiet():
            sol = s.run_tvec(tv)
        for j in idx:
            real.append((model, {f: float(sol[f][j]) for f in SDRZ_F}, p, float(tv[j]), float(tv[-1])))
            c = dict(p)
            c['t'] = float(tv[j])
            cases.append((model, c))
    man = _manifest()
    outs = {}
    for model in ('SDRZProfile', 'SDRZTail'):
        sel = [c for m, c in cases if m == model]
        outs[model] = iter(twin(model, sel, man))
    for (model, rf, p, t, T) in real:
        mtag, mf = next(outs[model])
        st['evaluations'] += 1
        _note(st, model + ' ' + mtag)
        bad = None
        if not mtag.startswith('ok'):
            bad = 'model %s, code returned numbers' % mtag
        else:
            st['distinct_nontrivial'] += 1
            for f in SDRZ_F:
                mv = mf[f]
                if f == 'position':
                    mv = p['D'] * T - mf['position_relative']      # the model's grid ends at its own t
                if not close(rf[f], mv, rtol=1e-11, atol=1e-13):
                    bad = '%s: code %r model %r' % (f, rf[f], mv)
                    break
        if bad:
            st['mismatches'].append(dict(model=model, params=p, t=t, T=T, why=bad))
        if len(st['samples']) < 2:
            st['samples'].append(dict(model=model, params=p, t=t, outcome=mtag))
    return st


EPP_MODEL = {'hypo': 'EPPistonHypo', 'hyperIfin': 'EPPistonIfin', 'hyperFin': 'EPPistonFin'}
EPP_ATTRS = ['sdev_y', 'rho_y', 'e_y', 'p_y', 'wv_el', 'vel_y', 'wv_pl', 'p2', 'rho2', 'e2']


def _epp_real(p):
    _, cls = load(EPP)
    with _quiet():
        s = cls(**p)
    a = {k: float(getattr(s, k)) for k in EPP_ATTRS}
    if p['model'] == 'hyperFin':
        a['F_y'] = p['rho0'] / a['rho_y']
    return s, a


def tie_eppiston(rng, deep):
    st = _stats()
    n = 150 if deep else 36
    per = {}
    for i in range(n):
        p = epp_params(rng, model=['hypo', 'hyperIfin', 'hyperFin'][i % 3])
        try:
            s, a = _epp_real(p)
        except Exception as ex:
            continue
        c = {k: v for k, v in p.items() if k != 'model'}
        c.update(a)
        per.setdefault(EPP_MODEL[p['model']], []).append((c, a, p))
    man = _manifest()
    for model, lst in per.items():
        for (mtag, mf), (c, a, p) in zip(twin(model, [x[0] for x in lst], man), lst):
            st['evaluations'] += 1
            _note(st, model + ' ' + mtag)
            bad = None
            if not mtag.startswith('ok'):
                bad = 'model %s, code constructed' % mtag
            else:
                st['distinct_nontrivial'] += 1
                for k in EPP_ATTRS:
                    if not close(a[k], mf[k], rtol=1e-10):
                        bad = '%s: code %r, definition at the real values %r' % (k, a[k], mf[k])
                        break
                # the fsolve atoms: residuals vanish to solver accuracy (scaled by the pressure level)
                if bad is None and abs(mf['plastic_residual']) > 1e-8 * max(abs(a['p2']), abs(a['p_y'])):
                    bad = 'plastic_residual %r at the returned wv_pl' % mf['plastic_residual']
                if bad is None and 'yield_residual' in mf and abs(mf['yield_residual']) > 1e-8 * p['G']:
                    bad = 'yield_residual %r at the returned F' % mf['yield_residual']
            if bad:
                st['mismatches'].append(dict(model=model, params=p, why=bad))
            if len(st['samples']) < 2:
                st['samples'].append(dict(model=model, params=p, outcome=mtag))
    return st


def tie_eppiston_run(rng, deep):
    st = _stats()
    n = 200 if deep else 50
    cases, real = [], []
    for i in range(n):
        p = epp_params(rng)
        try:
            s, a = _epp_real(p)
        except Exception:
            continue
        t = rng.uniform(0.1, 2.0)
        xmax = a['wv_el'] * t * rng.choice([0.7, 1.0, 1.3, 2.0])
        x = rng.uniform(0.0, 1.0) * xmax
        if i % 7 == 0:
            x = a['wv_pl'] * t
        try:
            with _quiet():
                sol = s(np.array([x, xmax]), t)
            rec = {n_.replace(' ', '_'): float(sol[n_][0]) for n_ in sol.dtype.names}
            rtag = 'ok'
        except Exception as ex:
            rec, rtag = None, 'raise:' + type(ex).__name__
        c = dict(a)
        c.update(rho0=p['rho0'], up=p['up'], xmax=xmax, x=x, t=t)
        cases.append(c)
        real.append((rtag, rec, p, x, t, xmax))
    for (mtag, mf), (rtag, rec, p, x, t, xmax) in zip(twin('EPPistonRun', cases), real):
        st['evaluations'] += 1
        _note(st, mtag)
        bad = None
        if mtag.startswith('raise'):
            if rtag != 'raise:' + mtag.split(':')[2]:
                bad = 'model %s, code %s' % (mtag, rtag)
        elif rtag != 'ok':
            bad = 'model %s, code %s' % (mtag, rtag)
        else:
            st['distinct_nontrivial'] += 1
            for k, v in rec.items():
                if not close(v, mf[k]):
                    bad = '%s: code %r model %r' % (k, v, mf[k])
                    break
        if bad:
            st['mismatches'].append(dict(model='EPPistonRun', params=p, x=x, t=t, xmax=xmax, why=bad))
        if len(st['samples']) < 2:
            st['samples'].append(dict(model='EPPistonRun', params=p, x=x, t=t, outcome=mtag))
    return st


# ==========================================================================
# oracles on the real code
# ==========================================================================
TOL = 1e-9


def _fail(site, detail):
    return dict(site=site, detail=detail)


def _call(clspath, params, pts, t):
    """public call -> dict of numpy columns, or None when it raises"""
    _, cls = load(clspath)
    try:
        with _quiet():
            s = cls(**params)
            sol = s(np.array(pts, dtype=float), float(t))
    except Exception:
        return None
    return {n: np.asarray(sol[n]) for n in sol.dtype.names}


def _rel(a, b, floor=0.0):
    return abs(a - b) / max(abs(a), abs(b), floor, 1e-300)


# ---------------- EHEP ----------------------------------------------------

def _ehep_region_points(rng, p, n):
    """points with their real region labels"""
    pts = [ehep_point(rng, p) for _ in range(n)]
    return pts


def _gen_ehep(rng):
    p = ehep_params(rng)
    x, t = ehep_point(rng, p)
    return dict(params=p, x=x, t=t)


def _chk_ehep_eos(c):
    f = _call(EHEP, c['params'], [c['x']], c['t'])
    if f is None:
        return None
    rho, pr, e, cs = (float(f[k][0]) for k in ('density', 'pressure', 'specific_internal_energy', 'sound_speed'))
    if not all(map(math.isfinite, (rho, pr, e, cs))):
        return None
    g = c['params']['gamma']
    if _rel(cs * cs * rho, 3.0 * pr, floor=1e-12) > TOL:
        return _fail('EHEP:c2=3p/rho', 'region %s x=%r t=%r: c^2 rho=%r 3p=%r' % (f['region'][0], c['x'], c['t'], cs * cs * rho, 3 * pr))
    if _rel(pr, (g - 1.0) * rho * e, floor=1e-12) > TOL:
        return _fail('EHEP:p=(gamma-1)rho e', 'region %s: p=%r (gamma-1) rho e=%r' % (f['region'][0], pr, (g - 1) * rho * e))
    return None


ehep_eos = O.make(_gen_ehep, _chk_ehep_eos, 'det.ehep_eos')


def _chk_ehep_admissible(c):
    f = _call(EHEP, c['params'], [c['x']], c['t'])
    if f is None:
        return None
    for k in ('density', 'pressure', 'specific_internal_energy', 'sound_speed'):
        v = float(f[k][0])
        if math.isfinite(v) and v < 0:
            return _fail('EHEP:negative-' + k, 'region %s x=%r t=%r: %s=%r' % (f['region'][0], c['x'], c['t'], k, v))
    return None


ehep_admissible = O.make(_gen_ehep, _chk_ehep_admissible, 'det.ehep_admissible')


def _ehep_fd(p, x, t, h):
    """central differences of (rho, u, p, e) in x and t through the public call; None if the stencil leaves the region"""
    pts = [(x, t), (x - h, t), (x + h, t), (x, t - h), (x, t + h)]
    vals = []
    reg = None
    for (xx, tt) in pts:
        f = _call(EHEP, p, [xx], tt)
        if f is None:
            return None
        r = str(f['region'][0])
        if reg is None:
            reg = r
        if r != reg:
            return None
        vals.append({k: float(f[k][0]) for k in ('density', 'velocity', 'pressure', 'specific_internal_energy', 'sound_speed')})
    c0, xm, xp_, tm, tp = vals
    d = {}
    for k in c0:
        d[k + '_x'] = (xp_[k] - xm[k]) / (2 * h)
        d[k + '_t'] = (tp[k] - tm[k]) / (2 * h)
    return reg, c0, d


def _ehep_residuals(reg, v, d):
    rho, u, pr, e = v['density'], v['velocity'], v['pressure'], v['specific_internal_energy']
    terms_m = [d['density_t'], u * d['density_x'], rho * d['velocity_x']]
    terms_u = [d['velocity_t'], u * d['velocity_x'], d['pressure_x'] / rho]
    terms_e = [d['specific_internal_energy_t'], u * d['specific_internal_energy_x'], pr / rho * d['velocity_x']]
    out = {}
    for n, tr in (('mass', terms_m), ('momentum', terms_u), ('energy', terms_e)):
        out[n] = abs(sum(tr)) / max(max(abs(x) for x in tr), 1e-12)
    return out


def _chk_ehep_pde(c):
    p, x, t = c['params'], c['x'], c['t']
    h = 1e-5 * max(abs(t), 1e-3)
    r1 = _ehep_fd(p, x, t, h)
    if r1 is None or r1[0] not in ('I', 'II', 'III', 'IV', 'V') or r1[1]['density'] <= 0:
        return None
    res = _ehep_residuals(*r1)
    for n, v in res.items():
        if v > 1e-5:
            r2 = _ehep_fd(p, x, t, h / 2)         # truncation error drops by 4 under step halving
            if r2 is None:
                return None
            v2 = _ehep_residuals(*r2)[n]
            if v2 > 1e-5 and v2 > 0.4 * v:
                return _fail('EHEP:' + n, 'region %s x=%r t=%r: scaled residual %.3g (h/2: %.3g)' % (r1[0], x, t, v, v2))
    return None


ehep_pde = O.make(_gen_ehep, _chk_ehep_pde, 'det.ehep_pde')


def _gen_ehep_front(rng):
    p = ehep_params(rng)
    return dict(params=p, t=rng.uniform(0.1, 0.95) * p['xtilde'] / p['D'])


def _chk_ehep_front(c):
    p, t = c['params'], c['t']
    D, rho0 = p['D'], p['rho_0']
    # locate the front on the returned fields: last point with region 0H / first with I, by bisection in x
    lo, hi = 0.5 * (D + 2 * p['up'] + D / 2) * t, 0.5 * (D * t + p['xtilde'])
    f = _call(EHEP, p, [lo, hi], t)
    if f is None or str(f['region'][0]) != 'I' or str(f['region'][1]) not in ('0H',):
        return None
    for _ in range(60):
        mid = 0.5 * (lo + hi)
        r = str(_call(EHEP, p, [mid], t)['region'][0])
        if r == 'I':
            lo = mid
        else:
            hi = mid
    xs = 0.5 * (lo + hi)
    # speed from the placement at neighbouring times
    def front(tt):
        a, b = 0.5 * (D + 2 * p['up'] + D / 2) * tt, 0.5 * (D * tt + p['xtilde'])
        for _ in range(60):
            m = 0.5 * (a + b)
            if str(_call(EHEP, p, [m], tt)['region'][0]) == 'I':
                a = m
            else:
                b = m
        return 0.5 * (a + b)
    # the closed-boundary test has an absolute tolerance (1e-12 on a sum of distances): the edge is located to ~1e-6
    dt = 0.04 * t
    speed = (front(t + dt) - front(t - dt)) / (2 * dt)
    if _rel(speed, D) > 1e-4:
        return _fail('EHEP:front-speed', 'front placed at %r, implied speed %r, D=%r' % (xs, speed, D))
    b = _call(EHEP, p, [xs * (1 - 1e-5)], t)
    a = _call(EHEP, p, [xs * (1 + 1e-5)], t)
    if str(a['region'][0]) != '0H' or str(b['region'][0]) != 'I':
        return None
    rb, ub, pb, eb, cb = (float(b[k][0]) for k in ('density', 'velocity', 'pressure', 'specific_internal_energy', 'sound_speed'))
    ra, ua, pa = (float(a[k][0]) for k in ('density', 'velocity', 'pressure'))
    q = D * D / 16.0
    mass = ra * (ua - speed) - rb * (ub - speed)
    mom = (ra * (ua - speed) * ua + pa) - (rb * (ub - speed) * ub + pb)
    en = ra * (ua - speed) * (q + ua * ua / 2) + pa * ua - (rb * (ub - speed) * (eb + ub * ub / 2) + pb * ub)
    sc = rho0 * D
    for n, v, s_ in (('mass', mass, sc), ('momentum', mom, sc * D), ('energy', en, sc * D * D)):
        if abs(v) / s_ > 1e-4:
            return _fail('EHEP:front-' + n, 't=%r: jump residual %r (scale %r)' % (t, v, s_))
    if _rel(ub + cb, D) > 1e-4:
        return _fail('EHEP:front-CJ', 'u+c=%r D=%r' % (ub + cb, D))
    return None


ehep_front = O.make(_gen_ehep_front, _chk_ehep_front, 'det.ehep_front')


def _gen_ehep_sim(rng):
    p = ehep_params(rng)
    tt = p['xtilde'] / p['D']
    t = rng.uniform(0.1, 0.9) * tt
    x = rng.uniform(2 * p['up'] + p['D'] / 2, p['D']) * t
    return dict(params=p, x=x, t=t, s=rng.uniform(0.2, 1.0))


def _chk_ehep_sim(c):
    p = c['params']
    a = _call(EHEP, p, [c['x']], c['t'])
    b = _call(EHEP, p, [c['s'] * c['x']], c['s'] * c['t'])
    if a is None or b is None or str(a['region'][0]) != 'I' or str(b['region'][0]) != 'I':
        return None
    for k in ('density', 'pressure', 'specific_internal_energy', 'sound_speed', 'velocity'):
        if _rel(float(a[k][0]), float(b[k][0]), floor=1e-12) > 1e-10:
            return _fail('EHEP:regionI-similarity', '%s: %r at (x,t), %r at s(x,t), s=%r' % (k, a[k][0], b[k][0], c['s']))
    return None


similar_ehep = O.make(_gen_ehep_sim, _chk_ehep_sim, 'det.similar_ehep')


def _gen_units(rng):
    return dict(M=10 ** rng.uniform(-3, 3), L=10 ** rng.uniform(-3, 3), T=10 ** rng.uniform(-6, 3))


def _gen_units_ehep(rng):
    c = _gen_ehep(rng)
    c.update(_gen_units(rng))
    return c


def _chk_units_ehep(c):
    p, M, L, T = c['params'], c['M'], c['L'], c['T']
    q = dict(p)
    q.update(D=p['D'] * L / T, up=p['up'] * L / T, rho_0=p['rho_0'] * M / L ** 3, xtilde=p['xtilde'] * L,
             xmax=p['xmax'] * L, tmax=p['tmax'] * T)
    a = _call(EHEP, p, [c['x']], c['t'])
    b = _call(EHEP, q, [c['x'] * L], c['t'] * T)
    if a is None or b is None:
        return None
    if str(a['region'][0]) != str(b['region'][0]):
        # points within rounding of a polygon edge may change side: only a difference that persists is reported
        a2 = _call(EHEP, p, [c['x'] * (1 + 1e-9)], c['t'])
        a3 = _call(EHEP, p, [c['x'] * (1 - 1e-9)], c['t'])
        if str(a2['region'][0]) == str(a3['region'][0]) == str(a['region'][0]):
            return _fail('EHEP:units-region', 'region %s becomes %s' % (a['region'][0], b['region'][0]))
        return None
    dims = dict(density=M / L ** 3, pressure=M / (L * T * T), specific_internal_energy=(L / T) ** 2,
                sound_speed=L / T, velocity=L / T)
    for k, s_ in dims.items():
        if _rel(float(a[k][0]) * s_, float(b[k][0]), floor=1e-300) > 1e-9 and abs(float(a[k][0])) > 1e-14:
            return _fail('EHEP:units', '%s: %r * %r != %r' % (k, a[k][0], s_, b[k][0]))
    return None


units_ehep = O.make(_gen_units_ehep, _chk_units_ehep, 'det.units_ehep')


def _gen_ehep_gamma(rng):
    p = ehep_params(rng)
    p['gamma'] = rng.choice([1.4, 5.0 / 3.0, 2.0, 2.5])
    p['up'] = min(p['up'], 0.9 * p['D'] / (p['gamma'] + 1))
    t = rng.uniform(0.2, 0.9) * p['xtilde'] / p['D']
    return dict(params=p, x=rng.uniform(2 * p['up'] + p['D'] / 2, p['D']) * t, t=t)


def _chk_ehep_gamma(c):
    """documented: gamma 'must be 3.0'.  A solver constructed with another gamma that returns finite
    numbers is the failure (site EHEP:gamma-not-3-accepted)"""
    f = _call(EHEP, c['params'], [c['x']], c['t'])
    if f is None:
        return None
    if c['params']['gamma'] != 3.0 and math.isfinite(float(f['pressure'][0])) and float(f['density'][0]) > 0:
        return _fail('EHEP:gamma-not-3-accepted', 'gamma=%r accepted; region %s returns rho=%r p=%r c=%r (c^2 rho / p = %r)'
                     % (c['params']['gamma'], f['region'][0], f['density'][0], f['pressure'][0], f['sound_speed'][0],
                        float(f['sound_speed'][0]) ** 2 * float(f['density'][0]) / float(f['pressure'][0])))
    return None


ehep_gamma = O.make(_gen_ehep_gamma, _chk_ehep_gamma, 'det.ehep_gamma')


# ---------------- constructor catalogues (C20) ------------------------------
CATALOG = {
    EHEP: dict(base=dict(), bad=[('D', 0.0), ('D', -1.0), ('rho_0', 0.0), ('rho_0', -2.0), ('up', -1e-3), ('up', 0.85 / 4.0),
                                 ('up', 1.0), ('xtilde', 0.0), ('xtilde', -1.0), ('xtilde', 11.0), ('tmax', 0.0), ('tmax', -1.0)],
               good=[('up', 0.0), ('xtilde', 10.0), ('up', 0.2124)]),
    SDRZ: dict(base=dict(), bad=[('D', 0.0), ('D', -1.0), ('rho_0', 0.0), ('rho_0', -1.0), ('gamma', 0.0), ('gamma', -1.0),
                                 ('geometry', 2), ('geometry', 3)],
               good=[('gamma', 1.4), ('D', 2.0)]),
    EPP: dict(base=dict(), bad=[('G', 0.0), ('G', -1.0), ('Y', 0.0), ('Y', -0.1), ('rho0', 0.0), ('rho0', -1.0), ('up', -1e-3),
                                ('model', 'elastic'), ('model', 'HYPO')],
              good=[('up', 0.0), ('model', 'hypo'), ('model', 'hyperFin')]),
}


def _gen_catalog(rng):
    cls = rng.choice(sorted(CATALOG))
    kind = rng.choice(['bad', 'bad', 'good'])
    k, v = rng.choice(CATALOG[cls][kind])
    return dict(cls=cls, kind=kind, key=k, value=v)


def _chk_catalog(c):
    _, cls = load(c['cls'])
    name = c['cls'].split(':')[1]
    try:
        with _quiet():
            cls(**{c['key']: c['value']})
        res = 'accepted'
    except ValueError:
        res = 'ValueError'
    except Exception as ex:
        res = type(ex).__name__
    if c['kind'] == 'bad' and res != 'ValueError':
        return _fail('%s:ctor-%s' % (name, c['key']), '%s=%r: %s (documented restriction, expected ValueError)' % (c['key'], c['value'], res))
    if c['kind'] == 'good' and res != 'accepted':
        return _fail('%s:ctor-%s' % (name, c['key']), '%s=%r is admissible but: %s' % (c['key'], c['value'], res))
    return None


ctor_catalog = O.make(_gen_catalog, _chk_catalog, 'det.ctor_catalog')


def _gen_finite(rng):
    k = rng.choice(['ehep', 'sdrz', 'mader', 'epp'])
    if k == 'ehep':
        p = ehep_params(rng)
        pts = [ehep_point(rng, p) for _ in range(4)]
        pts = [(x, t) for x, t in pts if 0 < t < p['tmax'] and 0 <= x < p['xmax']]
        return dict(kind=k, params=p, pts=pts)
    if k == 'sdrz':
        p = sdrz_params(rng)
        t = rng.uniform(0.05, 1.0)
        return dict(kind=k, params=p, t=t, xs=[rng.uniform(0, 1.1) * p['D'] * t for _ in range(5)])
    if k == 'mader':
        p = mader_params(rng, gamma3=True)
        t = rng.uniform(1e-6, 8e-6)
        return dict(kind=k, params=p, t=t, n=rng.choice([7, 40, 400]))
    p = epp_params(rng)
    return dict(kind=k, params=p, t=rng.uniform(0.1, 2.0))


def _chk_finite(c):
    """valid requests inside the domain never produce NaN or infinity"""
    k = c['kind']
    if k == 'ehep':
        for x, t in c['pts']:
            f = _call(EHEP, c['params'], [x], t)
            if f is None:
                return _fail('EHEP:raises-inside', 'x=%r t=%r' % (x, t))
            for n in ('density', 'pressure', 'specific_internal_energy', 'sound_speed', 'velocity'):
                if not math.isfinite(float(f[n][0])):
                    return _fail('EHEP:nonfinite', '%s=%r at x=%r t=%r region %s' % (n, f[n][0], x, t, f['region'][0]))
    elif k == 'sdrz':
        if c['params']['gamma'] <= 1.0:
            return None
        f = _call(SDRZ, c['params'], c['xs'], c['t'])
        if f is None:
            return _fail('SDRZ:raises-inside', 't=%r' % c['t'])
        for n, col in f.items():
            if not np.all(np.isfinite(col.astype(float))):
                return _fail('SDRZ:nonfinite', '%s=%r' % (n, col))
    elif k == 'mader':
        L = c['params']['d_cj'] * c['t']
        f = _call(MADER, c['params'], list(np.linspace(0.0, L, c['n'])), c['t'])
        if f is None:
            return _fail('Mader:raises-inside', 't=%r' % c['t'])
        for n, col in f.items():
            if not np.all(np.isfinite(col.astype(float))):
                return _fail('Mader:nonfinite', '%s has non-finite entries (n=%d)' % (n, c['n']))
    else:
        try:
            s, a = _epp_real(c['params'])
        except Exception as ex:
            return _fail('EPpiston:ctor-raises-inside', '%s' % type(ex).__name__)
        for n, v in a.items():
            if not math.isfinite(v):
                return _fail('EPpiston:nonfinite', '%s=%r' % (n, v))
    return None


finite_inside = O.make(_gen_finite, _chk_finite, 'det.finite_inside')


# ---------------- Mader -----------------------------------------------------

def _gen_mader(rng):
    p = mader_params(rng, gamma3=True)
    t = rng.uniform(1e-6, 8e-6)
    return dict(params=p, t=t, n=rng.choice([11, 40, 200, 1000]))


def _mader_grid(c):
    L = c['params']['d_cj'] * c['t']
    x = np.linspace(0.0, L, c['n'])
    f = _call(MADER, c['params'], list(x), c['t'])
    return x, f


def _chk_mader_eos(c):
    """c^2 = gamma p / rho holds for the point profile; for the returned cell averages to O((dx/x)^2)"""
    x, f = _mader_grid(c)
    if f is None:
        return None
    g = c['params']['gamma']
    dx = (x[-1] - x[0]) / len(x)
    pl_u = c['params']['u_piston']
    for i in range(len(x)):
        u, pr, cs, rho = (float(f[k][i]) for k in ('velocity', 'pressure', 'sound_speed', 'density'))
        if not all(map(math.isfinite, (pr, cs, rho))) or rho <= 0:
            continue
        err = _rel(cs * cs * rho, g * pr)
        plateau = (u == pl_u)
        y = cs / (g * c['params']['d_cj'] / (g + 1.0))
        tol = 1e-9 if plateau else 5.0 * (dx / (2 * (g * c['params']['d_cj'] / (g + 1)) * c['t']) / max(y, 1e-3)) ** 2 + 1e-9
        # the transition cell is the known C17 defect; skip it here (|xdet - xp| <= 0.1 dx)
        xdet = float(f['xdet'][i])
        xp = 0.5 * (g + 1.0) * c['t'] * (pl_u + c['params']['d_cj'] / (g + 1.0))
        if abs(xdet - xp) <= 0.1 * dx * (1 + 1e-9):
            continue
        if err > tol:
            return _fail('Mader:c2=gamma p/rho', 'cell %d of %d: c^2 rho=%r gamma p=%r (rel %.3g, allowed %.3g)' % (i, len(x), cs * cs * rho, g * pr, err, tol))
    return None


mader_eos = O.make(_gen_mader, _chk_mader_eos, 'det.mader_eos')


def _chk_mader_between(c):
    """every returned value lies between the plateau state and the CJ state; the fan is monotone"""
    x, f = _mader_grid(c)
    if f is None:
        return None
    p = c['params']
    g, D = p['gamma'], p['d_cj']
    ucj, ccj = D / (g + 1), g * D / (g + 1)
    z = 1 + (g - 1) * (p['u_piston'] - ucj) / (2 * ccj)
    lo = dict(velocity=min(p['u_piston'], ucj), sound_speed=min(ccj * z, ccj), pressure=min(p['p_cj'] * z ** (2 * g / (g - 1)), p['p_cj']))
    hi = dict(velocity=max(p['u_piston'], ucj), sound_speed=max(ccj * z, ccj), pressure=max(p['p_cj'] * z ** (2 * g / (g - 1)), p['p_cj']))
    dx = (x[-1] - x[0]) / len(x)
    xp = 0.5 * (g + 1.0) * c['t'] * (p['u_piston'] + D / (g + 1.0))
    for i in range(len(x)):
        xdet = float(f['xdet'][i])
        if xdet + 0.5 * dx > D * c['t']:          # the cell reaches beyond the front
            continue
        for k in lo:
            v = float(f[k][i])
            if v < lo[k] * (1 - 1e-9) - 1e-9 * abs(hi[k]) or v > hi[k] * (1 + 1e-9):
                site = 'Mader:transition-cell' if abs(xdet - xp) <= 0.1 * dx * (1 + 1e-9) else 'Mader:fan-out-of-range'
                return _fail(site, 'cell %d of %d (xlab=%r, t=%r): %s=%r outside [%r, %r] spanned by the plateau and CJ states'
                             % (i, len(x), x[i], c['t'], k, v, lo[k], hi[k]))
    return None


mader_between = O.make(_gen_mader, _chk_mader_between, 'det.mader_between')


def _chk_mader_monotone(c):
    x, f = _mader_grid(c)
    if f is None:
        return None
    p = c['params']
    g, D = p['gamma'], p['d_cj']
    dx = (x[-1] - x[0]) / len(x)
    xp = 0.5 * (g + 1.0) * c['t'] * (p['u_piston'] + D / (g + 1.0))
    fan = [i for i in range(len(x)) if float(f['xdet'][i]) - xp > 0.1 * dx * (1 + 1e-6)]
    for a, b in zip(fan, fan[1:]):          # xlab increases, xdet decreases: values must not increase
        for k in ('velocity', 'pressure', 'sound_speed', 'density'):
            if float(f[k][b]) > float(f[k][a]) * (1 + 1e-12):
                return _fail('Mader:fan-monotone', '%s increases from cell %d to %d (%r -> %r)' % (k, a, b, f[k][a], f[k][b]))
    return None


mader_monotone = O.make(_gen_mader, _chk_mader_monotone, 'det.mader_monotone')


def _gen_mader_g(rng):
    p = mader_params(rng)
    p['gamma'] = rng.choice([3.0, 1.4, 2.0, 5.0 / 3.0])
    return dict(params=p, t=rng.uniform(1e-6, 8e-6), n=rng.choice([401, 2001]))


def _chk_mader_cj(c):
    """the head of the returned fan is the CJ state: u -> D/(gamma+1), c -> gamma D/(gamma+1), u + c -> D,
    p -> p_cj as the cell at the front shrinks"""
    x, f = _mader_grid(c)
    if f is None:
        return None
    p = c['params']
    g, D = p['gamma'], p['d_cj']
    i = 1
    u, cs, pr = float(f['velocity'][i]), float(f['sound_speed'][i]), float(f['pressure'][i])
    res = 4.0 / c['n']
    if _rel(u + cs, D) > res or _rel(pr, p['p_cj']) > 4 * res:
        site = 'Mader:fan-head-gamma' if g != 3.0 else 'Mader:fan-head'
        return _fail(site, 'gamma=%r: next to the front u+c=%r (D=%r), c=%r (c_cj=%r), p=%r (p_cj=%r)'
                     % (g, u + cs, D, cs, g * D / (g + 1), pr, p['p_cj']))
    return None


mader_cj = O.make(_gen_mader_g, _chk_mader_cj, 'det.mader_cj')


def _gen_mader_sim(rng):
    c = _gen_mader(rng)
    c['s'] = rng.uniform(0.3, 3.0)
    c.update(_gen_units(rng))
    return c


def _chk_mader_sim(c):
    """same grid in x/t at time s t (cell width scales with t): same values"""
    x, a = _mader_grid(c)
    c2 = dict(c)
    c2['t'] = c['t'] * c['s']
    x2, b = _mader_grid(c2)
    if a is None or b is None:
        return None
    for k in ('velocity', 'pressure', 'sound_speed', 'density'):
        for i in range(len(x)):
            va, vb = float(a[k][i]), float(b[k][i])
            if math.isfinite(va) and math.isfinite(vb) and _rel(va, vb, floor=1e-9 * abs(c['params']['d_cj'])) > 1e-7:
                return _fail('Mader:similarity', '%s cell %d: %r at t, %r at s t (s=%r)' % (k, i, va, vb, c['s']))
    return None


similar_mader = O.make(_gen_mader_sim, _chk_mader_sim, 'det.similar_mader')


def _chk_units_mader(c):
    p, M, L, T = c['params'], c['M'], c['L'], c['T']
    q = dict(p_cj=p['p_cj'] * M / (L * T * T), d_cj=p['d_cj'] * L / T, gamma=p['gamma'], u_piston=p['u_piston'] * L / T)
    x, a = _mader_grid(c)
    b = _call(MADER, q, list(x * L), c['t'] * T)
    if a is None or b is None:
        return None
    dims = dict(velocity=L / T, pressure=M / (L * T * T), sound_speed=L / T, density=M / L ** 3, xdet=L)
    for k, s_ in dims.items():
        for i in range(len(x)):
            va, vb = float(a[k][i]) * s_, float(b[k][i])
            floor = 1e-9 * abs(p['d_cj'] * L / T) if k == 'velocity' else (1e-6 * abs(p['d_cj'] * c['t'] * L) if k == 'xdet' else 0.0)
            if math.isfinite(va) and math.isfinite(vb) and _rel(va, vb, floor=floor) > 1e-7:
                return _fail('Mader:units', '%s cell %d: %r (scaled) vs %r' % (k, i, va, vb))
    return None


units_mader = O.make(_gen_mader_sim, _chk_units_mader, 'det.units_mader')


# ---------------- SDRZ ------------------------------------------------------

def _gen_sdrz(rng):
    p = sdrz_params(rng)
    return dict(params=p, t=rng.uniform(0.05, 1.0), n=rng.choice([21, 201]))


def _sdrz_profile(c):
    _, cls = load(SDRZ)
    with _quiet():
        s = cls(**c['params'])
        return s.run_tvec(np.linspace(0.0, c['t'], c['n']))


def _chk_sdrz_steady(c):
    sol = _sdrz_profile(c)
    p = c['params']
    D, r0 = p['D'], p['rho_0']
    for i in range(len(sol['pressure'])):
        rho, u, pr = float(sol['density'][i]), float(sol['velocity'][i]), float(sol['pressure'][i])
        if _rel(rho * (D - u), r0 * D) > TOL:
            return _fail('SDRZ:mass-flux', 'lambda=%r: rho (D-u)=%r rho0 D=%r' % (sol['reaction_progress'][i], rho * (D - u), r0 * D))
        if _rel(pr + rho * (D - u) ** 2, r0 * D * D) > TOL or _rel(pr, r0 * D * u) > TOL:
            return _fail('SDRZ:momentum-flux', 'lambda=%r: p + rho (D-u)^2=%r rho0 D^2=%r' % (sol['reaction_progress'][i], pr + rho * (D - u) ** 2, r0 * D * D))
    # through the public call as well (interpolated back to x: linear interpolation error O(dt^2))
    xs = [p['D'] * c['t'] * k / 7.0 for k in range(1, 7)]
    f = _call(SDRZ, p, xs, c['t'])
    if f is not None:
        for i in range(len(xs)):
            rho, u, pr = float(f['density'][i]), float(f['velocity'][i]), float(f['pressure'][i])
            if rho == r0 and u == 0:
                continue
            if _rel(pr, r0 * D * u) > 1e-9 + 4.0 / c['n'] ** 2:
                return _fail('SDRZ:momentum-flux', 'public call x=%r: p=%r rho0 D u=%r' % (xs[i], pr, r0 * D * u))
    return None


sdrz_steady = O.make(_gen_sdrz, _chk_sdrz_steady, 'det.sdrz_steady')


def _chk_sdrz_dxdt(c):
    """dx/dt = D - u for the coded x(t): central differences of position_relative on the time grid"""
    sol = _sdrz_profile(dict(c, n=2001))
    tv = np.linspace(0.0, c['t'], 2001)
    xr = np.asarray(sol['position_relative'], dtype=float)
    u = np.asarray(sol['velocity'], dtype=float)
    D = c['params']['D']
    for i in range(1, 2000, 97):
        d = (xr[i + 1] - xr[i - 1]) / (tv[i + 1] - tv[i - 1])
        if _rel(d, D - u[i]) > 1e-6:
            return _fail('SDRZ:dxdt', 't=%r: dx/dt=%r D-u=%r' % (tv[i], d, D - u[i]))
    return None


sdrz_dxdt = O.make(_gen_sdrz, _chk_sdrz_dxdt, 'det.sdrz_dxdt')


def _gen_sdrz_tail(rng):
    p = sdrz_params(rng)
    return dict(params=p, t=rng.choice([1.2, rng.uniform(1.05, 2.5)]), n=201)


def _chk_sdrz_tail(c):
    """behind the reaction zone the documented x(t) = x(1) + (t-1)(D - u(1)); the public call's grid
    (201 points on [0, t]) does not contain t = 1 in general"""
    p = c['params']
    f = _call(SDRZ, p, [0.0], c['t'])
    if f is None:
        return None
    g, D, r0 = p['gamma'], p['D'], p['rho_0']
    rhoj = r0 * (g + 1) / g
    x1 = r0 * D / rhoj * ((1 - 1 / g) + 1 / (2 * g))
    u1 = D / (g + 1)
    want = x1 + (c['t'] - 1.0) * (D - u1)
    got = float(f['position_relative'][0])
    if _rel(got, want) > 0.02:
        return _fail('SDRZ:x_rel-after-reaction', 't=%r, x=0 (particle age > 1): position_relative=%r, documented '
                     'x(1)+(t-1)(D-u(1))=%r (xvec_rel[it1] is read before it is assigned)' % (c['t'], got, want))
    return None


sdrz_tail = O.make(_gen_sdrz_tail, _chk_sdrz_tail, 'det.sdrz_tail')


def _chk_sdrz_eos(c):
    sol = _sdrz_profile(c)
    g = c['params']['gamma']
    for i in range(len(sol['pressure'])):
        cs, pr, rho = float(sol['sound_speed'][i]), float(sol['pressure'][i]), float(sol['density'][i])
        if _rel(cs * cs, g * pr / rho) > TOL:
            return _fail('SDRZ:cs2=gamma p/rho', 'cs^2=%r gamma p/rho=%r' % (cs * cs, g * pr / rho))
    f = _call(SDRZ, c['params'], [c['params']['D'] * c['t'] * k / 9.0 for k in range(1, 9)], c['t'])
    if f is not None:
        for i in range(8):
            cs, pr, rho = float(f['sound_speed'][i]), float(f['pressure'][i]), float(f['density'][i])
            if pr == 0:
                continue
            if _rel(cs * cs, g * pr / rho) > 1e-9 + 4.0 / c['n'] ** 2:
                return _fail('SDRZ:cs2=gamma p/rho', 'public call: cs^2=%r gamma p/rho=%r' % (cs * cs, g * pr / rho))
    return None


sdrz_eos = O.make(_gen_sdrz, _chk_sdrz_eos, 'det.sdrz_eos')


def _chk_sdrz_monotone(c):
    if c['params']['gamma'] <= 1:
        return None
    sol = _sdrz_profile(c)
    lam = np.asarray(sol['reaction_progress'], dtype=float)
    for k in ('pressure', 'density', 'velocity'):
        col = np.asarray(sol[k], dtype=float)
        if np.any(col <= 0):
            return _fail('SDRZ:positive', '%s has non-positive entries' % k)
        if np.any(np.diff(col) > 1e-13 * abs(col[0])):
            return _fail('SDRZ:monotone', '%s is not non-increasing in lambda' % k)
    if np.any(np.diff(lam) < 0) or lam[0] < 0 or lam[-1] > 1:
        return _fail('SDRZ:lambda', 'reaction progress not monotone in [0,1]')
    return None


sdrz_monotone = O.make(_gen_sdrz, _chk_sdrz_monotone, 'det.sdrz_monotone')


# ---------------- EP piston ---------------------------------------------------

def _gen_epp(rng):
    return dict(params=epp_params(rng), t=rng.uniform(0.2, 2.0))


def _grun(p, rho, e):
    eta = 1.0 - p['rho0'] / rho
    Ph = p['rho0'] * p['c0'] ** 2 * eta / (1.0 - p['s0'] * eta) ** 2
    Eh = eta * Ph / (2.0 * p['rho0'])
    return Ph + p['gamma'] * rho * (e - Eh)


def _epp_states(c):
    """the three states through the public call: behind the plastic wave, between the waves, ahead"""
    p, t = c['params'], c['t']
    try:
        s, a = _epp_real(p)
    except Exception:
        return None
    xpl, xel = a['wv_pl'] * t, a['wv_el'] * t
    xs = [0.5 * xpl, 0.5 * (xpl + xel), 1.5 * xel, 2.0 * xel]
    f = _call(EPP, p, xs, t)
    if f is None:
        return None
    st = []
    for i in range(3):
        st.append(dict(rho=float(f['density'][i]), u=float(f['velocity'][i]), p=float(f['pressure'][i]),
                       e=float(f['specific_internal_energy'][i]), s=float(f['deviatoric stress'][i])))
    # wave speeds from the placement at two times (bisection on the returned density)
    def locate(tt, lo, hi, left):
        for _ in range(60):
            m = 0.5 * (lo + hi)
            r = float(_call(EPP, p, [m, 4 * a['wv_el'] * tt], tt)['density'][0])
            if r == left:
                lo = m
            else:
                hi = m
        return 0.5 * (lo + hi)
    dt = 0.05 * t
    Wpl = (locate(t + dt, 0.0, 0.5 * (xpl + xel) * (1 + dt / t), st[0]['rho']) - locate(t - dt, 0.0, 0.5 * (xpl + xel) * (1 - dt / t), st[0]['rho'])) / (2 * dt)
    Wel = (locate(t + dt, 0.5 * (xpl + xel) * (1 + dt / t), 2 * xel, st[1]['rho']) - locate(t - dt, 0.5 * (xpl + xel) * (1 - dt / t), 2 * xel, st[1]['rho'])) / (2 * dt)
    return st, Wpl, Wel, a


def _chk_epp_jumps(c):
    r = _epp_states(c)
    if r is None:
        return None
    st, Wpl, Wel, a = r
    if _rel(Wpl, a['wv_pl']) > 1e-8 or _rel(Wel, a['wv_el']) > 1e-8:
        return _fail('EPpiston:placement', 'implied speeds %r %r, attributes %r %r' % (Wpl, Wel, a['wv_pl'], a['wv_el']))
    for name, (A, B, W) in (('plastic', (st[0], st[1], Wpl)), ('elastic', (st[1], st[2], Wel))):
        def flux(S):
            m = S['rho'] * (S['u'] - W)
            sig = S['p'] - S['s']
            return m, m * S['u'] + sig, m * (S['e'] + S['u'] ** 2 / 2) + sig * S['u']
        fa, fb = flux(A), flux(B)
        m = abs(fb[0])
        scales = (m, max(abs(A['p'] - A['s']), m * abs(W)), max(abs(A['p'] - A['s']) * abs(A['u']), 1e-300))
        for k, nm in enumerate(('mass', 'momentum', 'energy')):
            if abs(fa[k] - fb[k]) / scales[k] > 1e-7:
                return _fail('EPpiston:%s-%s' % (name, nm), 'model=%s: flux %r vs %r' % (c['params']['model'], fa[k], fb[k]))
    return None


epp_jumps = O.make(_gen_epp, _chk_epp_jumps, 'det.epp_jumps')


def _chk_epp_eos(c):
    r = _epp_states(c)
    if r is None:
        return None
    st = r[0]
    p = c['params']
    for nm, S in (('p2', st[0]), ('p_y', st[1])):
        want = _grun(p, S['rho'], S['e'])
        if _rel(S['p'], want) > 1e-7:
            return _fail('EPpiston:%s=Gruneisen' % nm, 'model=%s: p=%r Gruneisen(rho,e)=%r' % (p['model'], S['p'], want))
    if st[2]['p'] != 0 or st[2]['e'] != 0 or st[2]['rho'] != p['rho0']:
        return _fail('EPpiston:undisturbed', repr(st[2]))
    return None


epp_eos = O.make(_gen_epp, _chk_epp_eos, 'det.epp_eos')


def _chk_epp_compressive(c):
    r = _epp_states(c)
    if r is None:
        return None
    st, _, _, a = r
    p = c['params']
    if not (st[0]['rho'] > st[1]['rho'] > st[2]['rho'] > 0):
        if a['vel_y'] >= p['up']:
            return None      # no plastic wave: outside the problem (reported under C20)
        return _fail('EPpiston:compressive', 'rho2=%r rho_y=%r rho0=%r' % (st[0]['rho'], st[1]['rho'], st[2]['rho']))
    if not (st[0]['p'] - st[0]['s'] > st[1]['p'] - st[1]['s'] > 0):
        if a['vel_y'] >= p['up']:
            return None
        return _fail('EPpiston:stress-rises', 'sigma2=%r sigma_y=%r' % (st[0]['p'] - st[0]['s'], st[1]['p'] - st[1]['s']))
    return None


epp_compressive = O.make(_gen_epp, _chk_epp_compressive, 'det.epp_compressive')


def _gen_units_epp(rng):
    c = _gen_epp(rng)
    c.update(_gen_units(rng))
    return c


def _chk_units_epp(c):
    p, M, L, T = c['params'], c['M'], c['L'], c['T']
    pr, rh, v = M / (L * T * T), M / L ** 3, L / T
    q = dict(p, G=p['G'] * pr, Y=p['Y'] * pr, rho0=p['rho0'] * rh, c0=p['c0'] * v, up=p['up'] * v)
    try:
        s, a = _epp_real(p)
        s2, b = _epp_real(q)
    except Exception:
        return None
    dims = dict(sdev_y=pr, rho_y=rh, e_y=v * v, p_y=pr, wv_el=v, vel_y=v, wv_pl=v, p2=pr, rho2=rh, e2=v * v)
    for k, s_ in dims.items():
        if _rel(a[k] * s_, b[k]) > 1e-6:
            return _fail('EPpiston:units', 'model=%s %s: %r (scaled) vs %r' % (p['model'], k, a[k] * s_, b[k]))
    t = c['t']
    xs = [0.3 * a['wv_pl'] * t, 0.5 * (a['wv_pl'] + a['wv_el']) * t, 1.3 * a['wv_el'] * t, 2 * a['wv_el'] * t]
    f = _call(EPP, p, xs, t)
    g_ = _call(EPP, q, [x * L for x in xs], t * T)
    if f is None or g_ is None:
        return None
    fd = {'density': rh, 'pressure': pr, 'specific_internal_energy': v * v, 'velocity': v, 'deviatoric stress': pr}
    for k, s_ in fd.items():
        for i in range(3):
            if _rel(float(f[k][i]) * s_, float(g_[k][i])) > 1e-6 and abs(float(f[k][i])) > 0:
                return _fail('EPpiston:units', 'field %s point %d' % (k, i))
    return None


units_epp = O.make(_gen_units_epp, _chk_units_epp, 'det.units_epp')


# ---------------- additional ties / oracle variants --------------------------

def tie_ehep_on_line(rng, deep):
    """Float twin of `EHEPOnLine` vs the real `point_on_line` (incl. points on and next to the edge)"""
    _, cls = load(EHEP)
    s = cls()
    st = _stats()
    n = 400 if deep else 100
    cases, real = [], []
    for i in range(n):
        ax, at, bx, bt = (rng.uniform(-2, 2) for _ in range(4))
        sc = 10 ** rng.uniform(-7, 1)
        at, bt = at * sc, bt * sc
        lam = rng.uniform(-0.2, 1.2)
        x, t = ax + lam * (bx - ax), at + lam * (bt - at)
        k = i % 4
        if k == 1:
            t += rng.uniform(-1, 1) * 10 ** rng.uniform(-9, -4)
        elif k == 2:
            x += rng.uniform(-1, 1) * 10 ** rng.uniform(-9, -4)
        elif k == 3:
            x, t = rng.uniform(-2, 2), rng.uniform(-2, 2) * sc
        tol = rng.choice([1e-12, 1e-5])
        r = bool(s.point_on_line(((ax, at), (bx, bt)), (x, t), tol))
        cases.append(dict(at=at, ax=ax, bt=bt, bx=bx, tol=tol, x=x, t=t))
        real.append(r)
    for (mtag, mf), r, c in zip(twin('EHEPOnLine', cases), real, cases):
        st['evaluations'] += 1
        _note(st, mtag)
        st['distinct_nontrivial'] += 1
        if (mf['on_line'] == 1.0) != r:
            # math.hypot is correctly rounded, sqrt(x*x+y*y) is not: a disagreement only counts away from the threshold
            d = math.hypot(c['ax'] - c['x'], c['at'] - c['t']) + math.hypot(c['bx'] - c['x'], c['bt'] - c['t']) \
                - math.hypot(c['ax'] - c['bx'], c['at'] - c['bt'])
            if abs(abs(d) - c['tol']) > 1e-3 * c['tol'] + 4e-16:
                st['mismatches'].append(dict(model='EHEPOnLine', case=c, why='model %r code %r' % (mf['on_line'], r)))
        if len(st['samples']) < 1:
            st['samples'].append(dict(model='EHEPOnLine', case=c, outcome=mtag))
    return st


def _chk_units_ehep_fields(c):
    """C08 for the fields: compared only where the polygon test gives the same region for the re-expressed
    point (the region test itself is the finding C08.ehep.region_test)"""
    r = _chk_units_ehep(c)
    if r is not None and r['site'] == 'EHEP:units-region':
        return None
    return r


units_ehep_fields = O.make(_gen_units_ehep, _chk_units_ehep_fields, 'det.units_ehep_fields')


def _gen_units_ehep_time(rng):
    """the re-expression that exposes the region test: time in seconds instead of microseconds"""
    c = _gen_ehep(rng)
    c.update(M=1.0, L=1.0, T=rng.choice([1e-6, 1e-6, 1e-3, 1e3]))
    return c


def _chk_units_region(c):
    r = _chk_units_ehep(c)
    if r is not None and r['site'] != 'EHEP:units-region':
        return None
    return r


units_ehep_region = O.make(_gen_units_ehep_time, _chk_units_region, 'det.units_ehep_region')


def _gen_mader3(rng):
    p = mader_params(rng, gamma3=True)
    return dict(params=p, t=rng.uniform(1e-6, 8e-6), n=rng.choice([401, 2001]))


mader_cj3 = O.make(_gen_mader3, _chk_mader_cj, 'det.mader_cj3')


def _chk_mader_between_fan(c):
    r = _chk_mader_between(c)
    if r is not None and r['site'] == 'Mader:transition-cell':
        return None
    return r


mader_between_fan = O.make(_gen_mader, _chk_mader_between_fan, 'det.mader_between_fan')


def _chk_mader_transition(c):
    r = _chk_mader_between(c)
    if r is not None and r['site'] != 'Mader:transition-cell':
        return None
    return r


def _gen_mader_tr(rng):
    # the documented configuration first: 11 cells on [0, 5] at t = 6.25e-6 puts a cell centre on the tail
    if rng.random() < 0.3:
        return dict(params=dict(p_cj=3.0e11, d_cj=8.0e5, gamma=3.0, u_piston=0.0), t=6.25e-6, n=11)
    return _gen_mader(rng)


mader_transition = O.make(_gen_mader_tr, _chk_mader_transition, 'det.mader_transition')


# ---------------- ties of the hand models ------------------------------------

def _ehep_boundary_point(rng, s):
    """a point on (or within rounding of) an edge or a corner of one of the polygons"""
    name = rng.choice(sorted(s.corners))
    poly = s.corners[name]
    i = rng.randrange(len(poly))
    a, b = poly[i], poly[(i + 1) % len(poly)]
    lam = rng.choice([0.0, 1.0, 0.5, rng.random(), rng.uniform(-0.1, 1.1)])
    x, t = a[0] + lam * (b[0] - a[0]), a[1] + lam * (b[1] - a[1])
    k = rng.random()
    if k < 0.3:
        x = x * (1 + rng.choice([-1, 1]) * 10 ** rng.uniform(-16, -9))
    elif k < 0.5:
        t = t * (1 + rng.choice([-1, 1]) * 10 ** rng.uniform(-16, -9))
    return float(x), float(t)


def tie_ehep_region(rng, deep):
    """hand model EPV/Model/EHEP.lean vs the real region selection: `region` (exact mirror of matplotlib's crossings test
    and of point_on_boundary) on random, edge and corner points; `regionHP` (half-planes) wherever the point is farther
    from every edge than the closed-boundary tolerance"""
    _, cls = load(EHEP)
    st = _stats()
    n = 700 if deep else 160
    lines, real = [], []
    for i in range(n):
        p = ehep_params(rng)
        if i % 5 == 4:
            p = dict(D=0.85, rho_0=1.6, up=0.05, xtilde=1.0, xmax=10.0, tmax=10.0, gamma=3.0)
        s = cls(**p)
        x, t = _ehep_boundary_point(rng, s) if i % 2 else ehep_point(rng, p)
        with _quiet():
            reg = s(np.array([x]), t)['region'][0]
        real.append((EHEP_CODE[str(reg)], p, x, t))
        lines.append('ehep_region ' + ' '.join(lean_io.bits(v) for v in (p['D'], p['up'], p['xtilde'], p['xmax'], p['tmax'], x, t)))
    outs = lean_io.run_lines(lines)
    for line, (code, p, x, t) in zip(outs, real):
        st['evaluations'] += 1
        w = line.split()
        if w[0] != 'region':
            st['mismatches'].append(dict(model='ehep_region', why='driver said %r' % line))
            continue
        exact, hp, excess = int(w[1]), int(w[2]), lean_io.unbits(w[3])
        _note(st, 'region %d' % code)
        near = excess < 4e-12          # inside the closed-boundary band (or within rounding of its threshold 1e-12)
        if exact != code:
            # sqrt(dx^2+dt^2) vs the correctly rounded math.hypot can only matter at the threshold of the band
            if not (0.25e-12 < excess < 4e-12):
                st['mismatches'].append(dict(model='ehep_region', params=p, x=x, t=t, why='mirror model %d, code %d (edge excess %.3g)' % (exact, code, excess)))
        if not near:
            st['distinct_nontrivial'] += 1
            if hp != code:
                st['mismatches'].append(dict(model='ehep_region', params=p, x=x, t=t, why='half-plane model %d, code %d (edge excess %.3g)' % (hp, code, excess)))
        if len(st['samples']) < 2:
            st['samples'].append(dict(model='ehep_region', params=p, x=x, t=t, outcome=line))
    return st


def tie_mader_cells(rng, deep):
    """hand model EPV/Model/Mader.lean (cell loop, dx from the batch, t <= 0 -> NaN) vs the public call"""
    st = _stats()
    n = 60 if deep else 16
    lines, real = [], []
    for i in range(n):
        p = mader_params(rng)
        t = rng.choice([0.0, -1e-6]) if i % 8 == 7 else rng.uniform(1e-6, 8e-6)
        m = rng.choice([2, 5, 11, 40])
        L = p['d_cj'] * abs(t) if t != 0 else 5.0
        xs = sorted(rng.uniform(0, L) for _ in range(m)) if i % 3 else list(np.linspace(0, L, m))
        f = _call(MADER, p, xs, t)
        real.append((f, p, t, xs))
        lines.append('mader_cells ' + ' '.join(lean_io.bits(v) for v in [t, p['p_cj'], p['d_cj'], p['gamma'], p['u_piston']] + list(xs)))
    names = ['velocity', 'pressure', 'sound_speed', 'density', 'xdet']
    for line, (f, p, t, xs) in zip(lean_io.run_lines(lines), real):
        st['evaluations'] += 1
        w = line.split()
        bad = None
        if w[0] != 'cells' or f is None:
            bad = 'driver %r / code %r' % (line[:60], None if f is None else 'ok')
        else:
            k = 1
            for i in range(len(xs)):
                tag = w[k]
                k += 1
                if tag.startswith('nan'):
                    if not all(math.isnan(float(f[nm][i])) for nm in names):
                        bad = 'model NaN (t <= 0), code finite'
                    continue
                vals = [lean_io.unbits(v) for v in w[k:k + 5]]
                k += 5
                for nm, v in zip(names, vals):
                    if not close(float(f[nm][i]), v, rtol=1e-9):
                        bad = 'point %d %s: code %r model %r' % (i, nm, float(f[nm][i]), v)
                if float(f['position'][i]) != xs[i]:
                    bad = 'position not returned unchanged'
            st['distinct_nontrivial'] += 1
        if bad:
            st['mismatches'].append(dict(model='mader_cells', params=p, t=t, xs=xs, why=bad))
        if len(st['samples']) < 1:
            st['samples'].append(dict(model='mader_cells', params=p, t=t, xs=xs, outcome=line[:80]))
    return st


def tie_sdrz_interp(rng, deep):
    """hand model EPV/Model/SDRZ.lean (time grid, profile, masks, interp1d) vs the public call, t <= 1"""
    _, cls = load(SDRZ)
    st = _stats()
    n = 40 if deep else 10
    lines, real = [], []
    names = ['pressure', 'velocity', 'density', 'sound_speed', 'reaction_progress', 'position_relative']
    for i in range(n):
        p = sdrz_params(rng)
        t = rng.choice([1.0, 0.5, rng.uniform(0.05, 1.0)])
        s = cls(**p)
        xs = [rng.uniform(-0.1, 1.15) * p['D'] * t for _ in range(7)] + [p['D'] * t, 0.0]
        with _quiet():
            sol = s(np.array(xs), t)
        real.append(({nm: [float(v) for v in sol[nm]] for nm in names}, p, t, xs))
        lines.append('sdrz_interp ' + ' '.join(lean_io.bits(v) for v in [p['D'], p['gamma'], p['rho_0'], t, 201.0] + xs))
    for line, (f, p, t, xs) in zip(lean_io.run_lines(lines), real):
        w = line.split()
        bad = None
        if w[0] != 'interp' or len(w) != 1 + 6 * len(xs):
            bad = 'driver said %r' % line[:80]
        else:
            for i in range(len(xs)):
                st['evaluations'] += 1
                st['distinct_nontrivial'] += 1
                vals = [lean_io.unbits(v) for v in w[1 + 6 * i:7 + 6 * i]]
                for nm, v in zip(names, vals):
                    if not close(f[nm][i], v, rtol=1e-10, atol=1e-13):
                        bad = 'x=%r %s: code %r model %r' % (xs[i], nm, f[nm][i], v)
        if bad:
            st['mismatches'].append(dict(model='sdrz_interp', params=p, t=t, why=bad))
        if len(st['samples']) < 1:
            st['samples'].append(dict(model='sdrz_interp', params=p, t=t, xs=xs, outcome=line[:80]))
    return st


def _gen_epp_weak(rng):
    p = epp_params(rng)
    p['up'] = rng.choice([0.0, 1e-4, 1e-3, rng.uniform(0.0, 0.002)])
    return dict(params=p, t=rng.uniform(0.2, 2.0))


def _chk_epp_weak(c):
    """every documented-admissible piston velocity (up >= 0) must give compressive waves"""
    try:
        s, a = _epp_real(c['params'])
    except Exception:
        return None
    p = c['params']
    if a['rho2'] < a['rho_y'] or a['p2'] - a['sdev_y'] < a['p_y'] - a['sdev_y']:
        site = 'EPpiston:weak-piston' if p['up'] < a['vel_y'] else 'EPpiston:compressive'
        return _fail(site, 'model=%s up=%r (vel_y=%r): rho2=%r < rho_y=%r, p2=%r, p_y=%r'
                     % (p['model'], p['up'], a['vel_y'], a['rho2'], a['rho_y'], a['p2'], a['p_y']))
    return None


epp_weak_piston = O.make(_gen_epp_weak, _chk_epp_weak, 'det.epp_weak_piston')


def _gen_ehep_outside(rng):
    p = ehep_params(rng)
    k = rng.choice(['t>tmax', 't=0', 't<0', 'x>xmax'])
    if k == 't>tmax':
        x, t = rng.uniform(0.3, 0.9) * (2 * p['up'] + p['D'] / 2) * p['tmax'], p['tmax'] * rng.uniform(1.01, 2.0)
    elif k == 't=0':
        x, t = rng.uniform(0.05, 0.95) * p['xtilde'], 0.0
    elif k == 't<0':
        x, t = rng.uniform(0.05, 0.95) * p['xtilde'], -rng.uniform(0.1, 1.0)
    else:
        x, t = p['xmax'] * rng.uniform(1.01, 2.0), rng.uniform(0.1, 0.9) * p['tmax']
    return dict(params=p, x=x, t=t, kind=k)


def _chk_ehep_outside(c):
    """outside the x-t window the solver must raise or return NaN, not finite numbers"""
    f = _call(EHEP, c['params'], [c['x']], c['t'])
    if f is None:
        return None
    vals = [float(f[k][0]) for k in ('density', 'pressure', 'velocity', 'sound_speed')]
    if all(math.isfinite(v) for v in vals):
        return _fail('EHEP:outside-window-zeros', '%s: x=%r t=%r (xmax=%r tmax=%r): region %s, rho=%r p=%r u=%r'
                     % (c['kind'], c['x'], c['t'], c['params']['xmax'], c['params']['tmax'], f['region'][0], vals[0], vals[1], vals[2]))
    return None


ehep_outside = O.make(_gen_ehep_outside, _chk_ehep_outside, 'det.ehep_outside')


# ---- C08: the region selection under a change to LARGER numbers (cm -> 10^-k cm units, us -> 10^-k us units) ----
# The recorded finding (C08.ehep.region_test) is the absolute tolerance 1e-12 of the closed-boundary test: it bites
# when the numbers get small (seconds instead of microseconds).  With numbers of order one or larger the band is
# below 1e-11 relative, so a point farther than 2e-6 (relative) from every polygon edge keeps its region under
# any up-scaling.  Seeded C08-6 / C02-6 widened the band to 1e-5 (a default argument no longer overridden).

def _gen_units_ehep_up(rng):
    p = ehep_params(rng)
    _, cls = load(EHEP)
    s = cls(**p)
    name = rng.choice(sorted(s.corners))
    poly = s.corners[name]
    i = rng.randrange(len(poly))
    a, b = poly[i], poly[(i + 1) % len(poly)]
    lam = rng.uniform(0.05, 0.95)
    x, t = a[0] + lam * (b[0] - a[0]), a[1] + lam * (b[1] - a[1])
    # point_on_line's measure |a-p| + |b-p| - |a-b| < tol is quadratic in the distance h from the edge (h^2 / 2 len), so the
    # closed-boundary band is ~ sqrt(2 len tol) wide: ~1e-6 on the unchanged tree (tol = 1e-12), relatively narrower still when
    # lengths AND times are multiplied by the same factor; ~4e-3 with tol = 1e-5
    d = rng.choice([-1, 1]) * 10 ** rng.uniform(-4.5, -2.5)
    ell = math.hypot(b[0] - a[0], b[1] - a[1])
    x, t = x - d * (b[1] - a[1]), t + d * (b[0] - a[0])        # moved off the edge, perpendicularly, by |d| x its length
    k = 10.0 ** rng.choice([1, 2, 3])
    return dict(params=p, x=float(x), t=float(t), M=1.0, L=k, T=k)


def _chk_units_region_up(c):
    if c['t'] <= 0:
        return None
    r = _chk_units_ehep(c)
    if r is not None and r['site'] == 'EHEP:units-region':
        return _fail('EHEP:units-region:upscaled', r['detail'] + ' for x=%r t=%r when lengths are multiplied by %g and times by %g'
                     % (c['x'], c['t'], c['L'], c['T']))
    return None


units_ehep_region_up = O.make(_gen_units_ehep_up, _chk_units_region_up, 'det.units_ehep_region_up')


# ---- C17: strong pistons (the plastic wave overruns the elastic precursor, up >~ 0.09 cm/us for aluminium) ----
# The returned profile, read from the piston outwards, must never rise: shocked material next to the piston,
# the undisturbed state ahead of every wave.  Added after seeded C17-6 (np.digitize with decreasing bins swapped
# the states exactly in this regime; the catalogue's pistons, up <= 0.03, never reach it).

EPP_NEGATIVE_DENSITY = dict(model='hypo', gamma=2.490193000126321, c0=0.4254048589676147, s0=1.484379623334473,
                            G=0.2009253137784984, Y=0.001677044210451121, rho0=3.546820758795593, up=0.1981164329966803)


def _gen_epp_strong(rng):
    if rng.random() < 0.03:
        return dict(params=dict(EPP_NEGATIVE_DENSITY), t=1.0)      # recorded witness of the baseline defect (1 in 40 000 draws)
    p = epp_params(rng)
    p['up'] = rng.uniform(0.05, 0.18)
    return dict(params=p, t=rng.uniform(0.2, 2.0))


def _chk_epp_profile(c):
    p, t = c['params'], c['t']
    try:
        s, a = _epp_real(p)
    except Exception:
        return None
    lo, hi = sorted([a['wv_pl'] * t, a['wv_el'] * t])
    if not (math.isfinite(lo) and math.isfinite(hi) and lo > 0):
        return None
    xs = [0.25 * lo, 0.75 * lo, 0.5 * (lo + hi), 1.25 * hi, 2.0 * hi]
    f = _call(EPP, p, xs, t)
    if f is None:
        return None
    rho = [float(v) for v in f['density']]
    pr = [float(v) for v in f['pressure']]
    if not all(map(math.isfinite, rho + pr)):
        return None
    if min(rho) < 0:
        return _fail('EPpiston:strong-piston:negative-density',
                     'up=%r model=%s c0=%r s0=%r: density %r behind the plastic wave (fsolve took the root beyond the pole of the '
                     'Hugoniot 1 - s0 eta = 0)' % (p['up'], p['model'], p['c0'], p['s0'], min(rho)))
    if abs(rho[-1] - p['rho0']) > 1e-9 * p['rho0']:
        return _fail('EPpiston:far-field', 'up=%r: density %r ahead of every wave, rho0=%r' % (p['up'], rho[-1], p['rho0']))
    if any(rho[i] < rho[i + 1] * (1 - 1e-12) for i in range(4)) or any(pr[i] < pr[i + 1] - 1e-12 * abs(pr[i + 1]) for i in range(4)):
        return _fail('EPpiston:profile-rises', 'up=%r model=%s: density %r, pressure %r from the piston outwards (waves at %r, %r)'
                     % (p['up'], p['model'], rho, pr, lo, hi))
    return None


epp_profile = O.make(_gen_epp_strong, _chk_epp_profile, 'det.epp_profile')
