"""Detonation / piston family (EHEP, Mader, SDRZ, EP piston): ties and oracles.

TIES (model vs real code, same inputs; the model side runs in Lean):
  tie_ehep          Float twin of `EHEP` (constructor + region formulas, region = atom) vs the public call;
                    the region atom is fed with the region string the real call returned
  tie_ehep_init     Float twin of `EHEPInit` vs the real constructor's `ttilde` and polygon corners
  tie_ehep_region   hand model EPV/Model/EHEP.lean (half-planes) vs the real polygon test, incl. boundary points
  tie_mader_rare    Float twin of `MaderRare` vs the real `rarefaction.rare`
  tie_mader_cells   hand model EPV/Model/Mader.lean (cell loop: dx from the batch, t <= 0 -> NaN) vs the public call
  tie_sdrz          Float twins of `SDRZProfile` / `SDRZTail` vs the real `run_tvec` on grids
  tie_sdrz_interp   hand model EPV/Model/SDRZ.lean (interpolation back to x, masks) vs the public call
  tie_eppiston      Float twins of `EPPiston{Hypo,Ifin,Fin}` (let-normal form): every definition evaluated at the
                    real attribute values reproduces the real attribute; the fsolve residuals vanish
  tie_eppiston_run  Float twin of `EPPistonRun` vs the public call on a batch [x, xmax]

ORACLES (numeric checks of the properties on the real code) are further down, one block per property.
Failure sites are '<Solver>:<what>'."""
import json
import math
import os
import warnings

import numpy as np

from . import lean_io
from . import oracle as O
from py2lean.trace import load

ROOT = os.path.dirname(os.path.dirname(os.path.dirname(os.path.abspath(__file__))))
EHEP = 'exactpack.solvers.ehep.ehep:EscapeOfHEProducts'
MADER = 'exactpack.solvers.mader.timmes:Mader'
SDRZ = 'exactpack.solvers.sdrz.sdrz:SteadyDetonationReactionZone'
EPP = 'exactpack.solvers.ep_piston.ep_piston:EPpiston'
EHEP_CODE = {'I': 1, 'II': 2, 'III': 3, 'IV': 4, 'V': 5, '00': 6, '0V': 7, '0H': 8, None: 0, 'None': 0}


def _manifest():
    return json.load(open(os.path.join(ROOT, 'lean', 'EPV', 'Gen', 'gen_manifest.json')))


def _quiet():
    warnings.simplefilter('ignore')
    return np.errstate(all='ignore')


def twin(name, cases, man=None):
    """evaluate the generated Float twin `name` on a list of dicts (symbol -> float);
    returns a list of (tag, {field: value})"""
    man = man or _manifest()
    e = man[name]
    order = e['params'] + e['pvars'] + ([e['tvar']] if e['tvar'] else [])
    lines = [name + ' ' + ' '.join(lean_io.bits(c[a]) for a in order) for c in cases]
    outs = lean_io.run_lines(lines) if lines else []
    res = []
    for line in outs:
        tag, vals = lean_io.parse_result(line)
        res.append((tag, dict(zip(e['fields'], vals))))
    return res


def close(a, b, rtol=1e-11, atol=0.0):
    if a is None or b is None:
        return True
    fa, fb = math.isfinite(a), math.isfinite(b)
    if not fa or not fb:
        return (not fa) and (not fb)
    return abs(a - b) <= rtol * max(abs(a), abs(b)) + atol + 1e-300


def _stats():
    return dict(evaluations=0, distinct_nontrivial=0, mismatches=[], samples=[], hist={})


def _note(st, key):
    st['hist'][key] = st['hist'].get(key, 0) + 1


# ==========================================================================
# parameter generators
# ==========================================================================

def ehep_params(rng, valid=True):
    D = rng.uniform(0.3, 2.0)
    p = dict(D=D, rho_0=rng.uniform(0.5, 4.0), up=rng.choice([rng.uniform(0.0, 0.3), rng.uniform(0.0, 0.95)]) * D / 4.0, xtilde=rng.uniform(0.4, 2.5),
             gamma=3.0)
    p['xmax'] = p['xtilde'] * rng.uniform(4.0, 12.0)
    p['tmax'] = p['xmax'] / D * rng.uniform(1.0, 3.0)
    if not valid:
        k = rng.choice(['D', 'rho_0', 'up-', 'up+', 'xtilde', 'xmax', 'tmax', 'gamma'])
        if k == 'D':
            p['D'] = rng.choice([0.0, -D])
        elif k == 'rho_0':
            p['rho_0'] = rng.choice([0.0, -1.0])
        elif k == 'up-':
            p['up'] = -rng.uniform(1e-6, 1.0)
        elif k == 'up+':
            p['up'] = p['D'] / (p['gamma'] + 1) * rng.choice([1.0, 1.5])
        elif k == 'xtilde':
            p['xtilde'] = rng.choice([0.0, -1.0])
        elif k == 'xmax':
            p['xmax'] = p['xtilde'] * rng.uniform(0.1, 0.99)
        elif k == 'tmax':
            p['tmax'] = rng.choice([0.0, -1.0])
        else:
            p['gamma'] = rng.choice([1.4, 2.0, 5.0 / 3.0])
    return p


def ehep_point(rng, p):
    """a point of the (x, t) diagram: mostly inside the modelled window, all regions"""
    D = p['D'] if p['D'] > 0 else 1.0
    xt = p['xtilde'] if p['xtilde'] > 0 else 1.0
    tt = xt / D
    u = rng.random()
    if u < 0.25:        # below the arrival of the front at the HE surface: regions I, III, 0H, 0V
        t = rng.uniform(0.05, 1.5) * tt
        x = rng.uniform(0.0, 1.15) * D * t
    elif u < 0.7:
        t = rng.uniform(0.05, 5.0) * tt
        x = rng.uniform(-0.1, 1.25) * max(D * t, xt)
    elif u < 0.9:
        t = rng.uniform(0.02, 1.0) * abs(p['tmax'])
        x = rng.uniform(-0.1, 1.1) * abs(p['xmax'])
    else:
        t = rng.uniform(-0.2, 1.3) * p['tmax']
        x = rng.uniform(-0.2, 1.3) * p['xmax']
    return x, t


def mader_params(rng, gamma3=False):
    return dict(p_cj=rng.uniform(1e11, 6e11), d_cj=rng.uniform(4e5, 1.2e6),
                gamma=3.0 if gamma3 else rng.choice([3.0, 3.0, rng.uniform(1.2, 4.0)]),
                u_piston=rng.choice([0.0, 0.0, rng.uniform(0.0, 5e4)]))


def sdrz_params(rng):
    return dict(D=rng.uniform(0.3, 2.0), rho_0=rng.uniform(0.5, 4.0), gamma=rng.uniform(1.2, 4.0))


def epp_params(rng, model=None):
    return dict(model=model or rng.choice(['hypo', 'hyperIfin', 'hyperFin']),
                gamma=rng.uniform(1.5, 2.5), c0=rng.uniform(0.4, 0.7), s0=rng.uniform(1.1, 1.6),
                G=rng.uniform(0.2, 0.4), Y=rng.uniform(0.001, 0.004), rho0=rng.uniform(2.0, 4.0),
                up=rng.uniform(0.004, 0.03))


# ==========================================================================
# ties
# ==========================================================================

def _ehep_call(p, pts, t):
    """public call -> (tag, list of records) ; tag 'ok' | 'raise:<Exc>'"""
    _, cls = load(EHEP)
    try:
        with _quiet():
            s = cls(**p)
            sol = s(np.array(pts, dtype=float), float(t))
    except Exception as ex:
        return 'raise:' + type(ex).__name__, []
    recs = []
    for i in range(len(pts)):
        recs.append({n: (sol[n][i] if n == 'region' else float(sol[n][i])) for n in sol.dtype.names})
    return 'ok', recs


def tie_ehep(rng, deep):
    """Float twin of EHEP (region = atom, fed from the real call) vs the public call"""
    st = _stats()
    n = 400 if deep else 90
    cases, real = [], []
    for i in range(n):
        p = ehep_params(rng, valid=(i % 6 != 0))
        x, t = ehep_point(rng, p)
        tag, recs = _ehep_call(p, [x], t)
        reg = EHEP_CODE[str(recs[0]['region'])] if recs else float(rng.randrange(0, 9))
        c = dict(p)
        c.update(region=float(reg), x=x, t=t)
        cases.append(c)
        real.append((tag, recs[0] if recs else None, p, x, t))
    outs = twin('EHEP', cases)
    for (mtag, mf), (rtag, rec, p, x, t) in zip(outs, real):
        st['evaluations'] += 1
        kind = mtag.split(':')[0]
        bad = None
        if kind == 'raise':
            if rtag != 'raise:' + mtag.split(':')[2]:
                bad = 'model %s, code %s' % (mtag, rtag)
            _note(st, 'raise')
        elif rtag != 'ok':
            bad = 'model %s, code %s' % (mtag, rtag)
        else:
            _note(st, 'region ' + str(rec['region']))
            st['distinct_nontrivial'] += 1
            for f in ('position', 'density', 'pressure', 'specific_internal_energy', 'sound_speed', 'velocity'):
                if not close(rec[f], mf[f]):
                    bad = 'field %s: code %r model %r (region %s)' % (f, rec[f], mf[f], rec['region'])
                    break
        if bad:
            st['mismatches'].append(dict(model='EHEP', params=p, x=x, t=t, why=bad))
        if len(st['samples']) < 2:
            st['samples'].append(dict(model='EHEP', params=p, x=x, t=t, outcome=mtag))
    return st


def tie_ehep_init(rng, deep):
    from py2lean.targets.t_detonation import EHEP_CORNERS
    st = _stats()
    _, cls = load(EHEP)
    n = 200 if deep else 40
    cases, real = [], []
    for i in range(n):
        p = ehep_params(rng, valid=(i % 5 != 0))
        try:
            s = cls(**p)
            vals = {'ttilde': s.ttilde}
            for r, k in EHEP_CORNERS:
                vals['c%s_%d_x' % (r, k)] = float(s.corners[r][k][0])
                vals['c%s_%d_t' % (r, k)] = float(s.corners[r][k][1])
            real.append(('ok', vals, p))
        except Exception as ex:
            real.append(('raise:' + type(ex).__name__, None, p))
        cases.append(p)
    for (mtag, mf), (rtag, vals, p) in zip(twin('EHEPInit', cases), real):
        st['evaluations'] += 1
        bad = None
        if mtag.startswith('raise'):
            if rtag != 'raise:' + mtag.split(':')[2]:
                bad = 'model %s, code %s' % (mtag, rtag)
        elif rtag != 'ok':
            bad = 'model %s, code %s' % (mtag, rtag)
        else:
            st['distinct_nontrivial'] += 1
            for k, v in vals.items():
                if not close(v, mf[k]):
                    bad = '%s: code %r model %r' % (k, v, mf[k])
                    break
        if bad:
            st['mismatches'].append(dict(model='EHEPInit', params=p, why=bad))
        if len(st['samples']) < 1:
            st['samples'].append(dict(model='EHEPInit', params=p, outcome=mtag))
    return st


def tie_mader_rare(rng, deep):
    _, rare = load('exactpack.solvers.mader.rarefaction:rare')
    st = _stats()
    n = 600 if deep else 150
    cases, real = [], []
    for i in range(n):
        p = mader_params(rng)
        time = rng.uniform(1e-6, 8e-6)
        L = p['d_cj'] * time
        dx = L / rng.choice([5, 11, 40, 200, 1000])
        um = -p['d_cj'] / (p['gamma'] + 1.0)
        xp = 0.5 * (p['gamma'] + 1.0) * time * (p['u_piston'] - um)
        if i % 3 == 0:      # aim at the transition cell
            xlab = L - xp + rng.uniform(-0.25, 0.25) * dx
        else:
            xlab = rng.uniform(0.0, 1.0) * L
        with _quiet():
            r = rare(time, xlab, dx, p['p_cj'], p['d_cj'], p['gamma'], p['u_piston'])
        real.append(([float(v) for v in r], p, time, xlab, dx))
        cases.append(dict(d_cj=p['d_cj'], dx=dx, gam=p['gamma'], p_cj=p['p_cj'], u_piston=p['u_piston'],
                          xlab=xlab, time=time))
    names = ['velocity', 'pressure', 'sound_speed', 'density', 'xdet']
    for (mtag, mf), (rv, p, time, xlab, dx) in zip(twin('MaderRare', cases), real):
        st['evaluations'] += 1
        _note(st, mtag)
        bad = None
        if not mtag.startswith('ok'):
            bad = 'model %s, code returned numbers' % mtag
        else:
            st['distinct_nontrivial'] += 1
            for k, v in zip(names, rv):
                # differences of nearly equal powers: compare with an absolute floor from the cancelling terms
                if not close(v, mf[k], rtol=1e-9):
                    bad = '%s: code %r model %r' % (k, v, mf[k])
                    break
        if bad:
            st['mismatches'].append(dict(model='MaderRare', params=p, time=time, xlab=xlab, dx=dx, why=bad))
        if len(st['samples']) < 2:
            st['samples'].append(dict(model='MaderRare', params=p, time=time, xlab=xlab, dx=dx, outcome=mtag))
    return st


SDRZ_F = ['pressure', 'velocity', 'density', 'sound_speed', 'reaction_progress', 'position_relative', 'position']


def tie_sdrz(rng, deep):
    """Float twins of the profile models vs `run_tvec` on whole grids: entries with t_i <= 1 against
    SDRZProfile (position = D t_last - x_rel), entries behind t = 1 against SDRZTail on grids that contain 1.0"""
    _, cls = load(SDRZ)
    st = _stats()
    n = 60 if deep else 14
    cases, real = [], []
    for i in range(n):
        p = sdrz_params(rng)
        s = cls(**p)
        if i % 2 == 0:
            T = rng.choice([1.0, rng.uniform(0.05, 1.0)])
            tv = np.linspace(0.0, T, rng.choice([7, 21, 201]))
            model = 'SDRZProfile'
            idx = range(len(tv))
        else:
            T = rng.uniform(1.05, 3.0)
            tv = np.array(sorted(set([0.0, 1.0, T] + [rng.uniform(0, T) for _ in range(6)])))
            model = 'SDRZTail'
            idx = [j for j in range(len(tv)) if tv[j] >= 1.0]
        with _quiet():
            sol = s.run_tvec(tv)
        for j in idx:
            real.append((model, {f: float(sol[f][j]) for f in SDRZ_F}, p, float(tv[j]), float(tv[-1])))
            c = dict(p)
            c['t'] = float(tv[j])
            cases.append((model, c))
    man = _manifest()
    outs = {}
    for model in ('SDRZProfile', 'SDRZTail'):
        sel = [c for m, c in cases if m == model]
        outs[model] = iter(twin(model, sel, man))
    for (model, rf, p, t, T) in real:
        mtag, mf = next(outs[model])
        st['evaluations'] += 1
        _note(st, model + ' ' + mtag)
        bad = None
        if not mtag.startswith('ok'):
            bad = 'model %s, code returned numbers' % mtag
        else:
            st['distinct_nontrivial'] += 1
            for f in SDRZ_F:
                mv = mf[f]
                if f == 'position':
                    mv = p['D'] * T - mf['position_relative']      # the model's grid ends at its own t
                if not close(rf[f], mv, rtol=1e-11, atol=1e-13):
                    bad = '%s: code %r model %r' % (f, rf[f], mv)
                    break
        if bad:
            st['mismatches'].append(dict(model=model, params=p, t=t, T=T, why=bad))
        if len(st['samples']) < 2:
            st['samples'].append(dict(model=model, params=p, t=t, outcome=mtag))
    return st


EPP_MODEL = {'hypo': 'EPPistonHypo', 'hyperIfin': 'EPPistonIfin', 'hyperFin': 'EPPistonFin'}
EPP_ATTRS = ['sdev_y', 'rho_y', 'e_y', 'p_y', 'wv_el', 'vel_y', 'wv_pl', 'p2', 'rho2', 'e2']


def _epp_real(p):
    _, cls = load(EPP)
    with _quiet():
        s = cls(**p)
    a = {k: float(getattr(s, k)) for k in EPP_ATTRS}
    if p['model'] == 'hyperFin':
        a['F_y'] = p['rho0'] / a['rho_y']
    return s, a


def tie_eppiston(rng, deep):
    st = _stats()
    n = 150 if deep else 36
    per = {}
    for i in range(n):
        p = epp_params(rng, model=['hypo', 'hyperIfin', 'hyperFin'][i % 3])
        try:
            s, a = _epp_real(p)
        except Exception as ex:
            continue
        c = {k: v for k, v in p.items() if k != 'model'}
        c.update(a)
        per.setdefault(EPP_MODEL[p['model']], []).append((c, a, p))
    man = _manifest()
    for model, lst in per.items():
        for (mtag, mf), (c, a, p) in zip(twin(model, [x[0] for x in lst], man), lst):
            st['evaluations'] += 1
            _note(st, model + ' ' + mtag)
            bad = None
            if not mtag.startswith('ok'):
                bad = 'model %s, code constructed' % mtag
            else:
                st['distinct_nontrivial'] += 1
                for k in EPP_ATTRS:
                    if not close(a[k], mf[k], rtol=1e-10):
                        bad = '%s: code %r, definition at the real values %r' % (k, a[k], mf[k])
                        break
                # the fsolve atoms: residuals vanish to solver accuracy (scaled by the pressure level)
                if bad is None and abs(mf['plastic_residual']) > 1e-8 * max(abs(a['p2']), abs(a['p_y'])):
                    bad = 'plastic_residual %r at the returned wv_pl' % mf['plastic_residual']
                if bad is None and 'yield_residual' in mf and abs(mf['yield_residual']) > 1e-8 * p['G']:
                    bad = 'yield_residual %r at the returned F' % mf['yield_residual']
            if bad:
                st['mismatches'].append(dict(model=model, params=p, why=bad))
            if len(st['samples']) < 2:
                st['samples'].append(dict(model=model, params=p, outcome=mtag))
    return st


def tie_eppiston_run(rng, deep):
    st = _stats()
    n = 200 if deep else 50
    cases, real = [], []
    for i in range(n):
        p = epp_params(rng)
        try:
            s, a = _epp_real(p)
        except Exception:
            continue
        t = rng.uniform(0.1, 2.0)
        xmax = a['wv_el'] * t * rng.choice([0.7, 1.0, 1.3, 2.0])
        x = rng.uniform(0.0, 1.0) * xmax
        if i % 7 == 0:
            x = a['wv_pl'] * t
        try:
            with _quiet():
                sol = s(np.array([x, xmax]), t)
            rec = {n_.replace(' ', '_'): float(sol[n_][0]) for n_ in sol.dtype.names}
            rtag = 'ok'
        except Exception as ex:
            rec, rtag = None, 'raise:' + type(ex).__name__
        c = dict(a)
        c.update(rho0=p['rho0'], up=p['up'], xmax=xmax, x=x, t=t)
        cases.append(c)
        real.append((rtag, rec, p, x, t, xmax))
    for (mtag, mf), (rtag, rec, p, x, t, xmax) in zip(twin('EPPistonRun', cases), real):
        st['evaluations'] += 1
        _note(st, mtag)
        bad = None
        if mtag.startswith('raise'):
            if rtag != 'raise:' + mtag.split(':')[2]:
                bad = 'model %s, code %s' % (mtag, rtag)
        elif rtag != 'ok':
            bad = 'model %s, code %s' % (mtag, rtag)
        else:
            st['distinct_nontrivial'] += 1
            for k, v in rec.items():
                if not close(v, mf[k]):
                    bad = '%s: code %r model %r' % (k, v, mf[k])
                    break
        if bad:
            st['mismatches'].append(dict(model='EPPistonRun', params=p, x=x, t=t, xmax=xmax, why=bad))
        if len(st['samples']) < 2:
            st['samples'].append(dict(model='EPPistonRun', params=p, x=x, t=t, outcome=mtag))
    return st
