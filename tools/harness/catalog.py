"""harness.catalog -- every public solver class with a valid way to construct and call it.

Used by the call/return-contract correspondence (C05), the history/batch checks (C06)
and by the class tables generated into Lean.  The class list itself is discovered by
introspection of exactpack.solvers on every run, so a new class without an entry here
shows up as 'uncatalogued' (reported, never silently skipped)."""
import importlib
import inspect
import pkgutil
import warnings

import numpy as np


def discover():
    """{ 'pkg.mod:Class': class } for every ExactSolver subclass defined under exactpack.solvers"""
    import exactpack.solvers
    from exactpack.base import ExactSolver
    out = {}
    with warnings.catch_warnings():
        warnings.simplefilter('ignore')
        for m in pkgutil.walk_packages(exactpack.solvers.__path__, 'exactpack.solvers.'):
            if '.tests' in m.name or 'examples' in m.name:
                continue
            try:
                mod = importlib.import_module(m.name)
            except Exception:
                continue
            for n, c in vars(mod).items():
                if inspect.isclass(c) and issubclass(c, ExactSolver) and c is not ExactSolver \
                        and c.__module__ == mod.__name__:
                    out[mod.__name__ + ':' + n] = c
    return out


def pts1(lo, hi):
    return lambda rng, n: np.array(sorted(rng.uniform(lo, hi) for _ in range(n)))


def pts2(xr, yr):
    return lambda rng, n: np.array([[rng.uniform(*xr), rng.uniform(*yr)] for _ in range(n)])


def pts3(xr, yr, zr):
    return lambda rng, n: np.array([[rng.uniform(*xr), rng.uniform(*yr), rng.uniform(*zr)] for _ in range(n)])


def _k3pts(dim):
    def f(rng, n):
        out = []
        while len(out) < n:
            p = [rng.uniform(-6, 6) for _ in range(dim)]
            if sum(x * x for x in p) > 3.1 ** 2:
                out.append(p)
        return np.array(out)
    return f


def _bbeos():
    from exactpack.solvers.nohblackboxeos.equations_of_state.eos_library import ideal_gas_eos
    return ideal_gas_eos()


def _r2d_states():
    return dict(bottom_state=[1., 1., 2.4, 0., 1.4], top_state=[0.25, 0.5, 7.0, 0., 1.4])


class Entry(object):
    def __init__(self, kwargs=None, points=None, t=None, dim=1, slow=False, grid=False, min_n=1, args=None,
                 unconstructible=None):
        self.kwargs = kwargs or (lambda rng: {})
        self.points = points or pts1(0.1, 1.0)
        self.t = t or (lambda rng: rng.uniform(0.1, 0.9))
        self.dim = dim
        self.slow = slow          # only exercised in the thorough tier
        self.grid = grid          # documented as needing a structured grid of points
        self.min_n = min_n
        self.args = args          # positional constructor arguments
        self.unconstructible = unconstructible


DEFAULT = Entry()
COGT = lambda rng: rng.uniform(0.1, 0.6)

SPECIAL = {
    'Blake': Entry(points=pts1(0.1, 0.4), t=lambda rng: rng.uniform(1e-5, 1e-4)),
    'Cog11': Entry(kwargs=lambda rng: dict(Gamma=40.), t=COGT),
    'PlanarCog11': Entry(kwargs=lambda rng: dict(Gamma=40.), t=COGT),
    'CylindricalCog11': Entry(kwargs=lambda rng: dict(Gamma=40.), t=COGT),
    'SphericalCog11': Entry(kwargs=lambda rng: dict(Gamma=40.), t=COGT),
    'PlanarCog12': Entry(unconstructible='wrapper fixes geometry=1, which the parent constructor rejects'),
    'PlanarCog14': Entry(kwargs=lambda rng: dict(alpha=-1.0, beta=2.0), t=COGT),
    'CylindricalExpansion': Entry(points=pts2((1.1, 2.5), (0.1, 1.5)), dim=2),
    # the node counts have no usable default (the constructors raise "Number of x-nodes must be specified")
    'ExplosiveArc': Entry(kwargs=lambda rng: dict(xnodes=21, ynodes=41, t_f=1.0), grid=True, slow=True),
    'RateStick': Entry(kwargs=lambda rng: dict(xnodes=11, ynodes=11, t_f=2.0), grid=True, slow=True),
    # gamma = 3 solves in half a second, the default 1.4 takes minutes per call (the C01/C02 Guderley oracles use it sparingly);
    # times before the collapse and after the reflection
    'Guderley': Entry(kwargs=lambda rng: dict(gamma=3.0), slow=True, points=pts1(0.2, 1.0),
                      t=lambda rng: rng.choice([-0.5, -0.5, 1.0 + 0.5 * rng.random()])),
    'CylindricalSandwich': Entry(points=pts2((0.1, 0.9), (0.1, 1.0)), dim=2, slow=True),
    'Hutchens2': Entry(points=pts2((0.1, 0.9), (0.1, 0.9)), dim=2),
    'Rectangle': Entry(points=pts2((0.1, 0.9), (0.1, 0.9)), dim=2),
    'Kenamond1': Entry(kwargs=lambda rng: dict(geometry=2), points=pts2((-3, 3), (-3, 3)), dim=2),
    'Kenamond2': Entry(kwargs=lambda rng: dict(geometry=2), points=pts2((-8, 8), (-8, 8)), dim=2),
    'Kenamond3': Entry(kwargs=lambda rng: dict(geometry=2), points=_k3pts(2), dim=2),
    'NohBlackBoxEos': Entry(args=lambda: (_bbeos(),), points=pts1(0.05, 1.0), t=lambda rng: rng.uniform(0.2, 0.6)),
    'PlanarNohBlackBox': Entry(args=lambda: (_bbeos(),), points=pts1(0.05, 1.0), t=lambda rng: rng.uniform(0.2, 0.6)),
    'CylindricalNohBlackBox': Entry(args=lambda: (_bbeos(),), points=pts1(0.05, 1.0), t=lambda rng: rng.uniform(0.2, 0.6)),
    'SphericalNohBlackBox': Entry(args=lambda: (_bbeos(),), points=pts1(0.05, 1.0), t=lambda rng: rng.uniform(0.2, 0.6)),
    'Sn_Solver': Entry(slow=True, points=pts1(-0.02, 0.02)),
    'ED_Solver': Entry(points=pts1(-0.02, 0.02), t=lambda rng: rng.uniform(0.0, 1e-9)),
    'nED_Solver': Entry(points=pts1(-0.02, 0.02), t=lambda rng: rng.uniform(0.0, 1e-9)),
    'ie_Solver': Entry(points=pts1(-0.02, 0.02), t=lambda rng: rng.uniform(0.0, 1e-9)),
    'GenEOS_Solver': Entry(slow=True, points=pts1(0.05, 0.95), t=lambda rng: rng.uniform(0.1, 0.25), min_n=2),
    'IGEOS_Solver': Entry(points=pts1(0.05, 0.95), t=lambda rng: rng.uniform(0.05, 0.25), min_n=2),
    'Mader': Entry(points=pts1(0.1, 4.9), t=lambda rng: 6.25e-6, min_n=2),
    'Noh2': Entry(t=lambda rng: rng.uniform(0.05, 0.9)),
    'Sedov': Entry(points=pts1(0.05, 1.2), t=lambda rng: rng.uniform(0.3, 1.0), min_n=2),
    'EPpiston': Entry(points=pts1(0.05, 1.0), t=lambda rng: rng.uniform(0.5, 1.0), min_n=2),
    'SteadyDetonationReactionZone': Entry(points=pts1(0.0, 1.0), t=lambda rng: rng.uniform(0.5, 1.5), min_n=2),
    'SuOlson': Entry(points=pts1(0.05, 3.0), t=lambda rng: 10 ** rng.uniform(-11.5, -9.5)),     # tau = c kappa t in [0.1, 10]
    'EscapeOfHEProducts': Entry(points=pts1(0.05, 3.0), t=lambda rng: rng.uniform(0.5, 4.0)),
}
for _g in ('Planar', 'Cylindrical', 'Spherical'):
    SPECIAL[_g + 'Sedov'] = SPECIAL['Sedov']
    SPECIAL[_g + 'Noh2'] = SPECIAL['Noh2']


def entry(path):
    """catalogue entry for a class path ('pkg.mod:Class')"""
    name = path.split(':')[1]
    mod = path.split(':')[0]
    if name == 'IGEOS_Solver' and 'riemann2D' in mod:
        return Entry(kwargs=lambda rng: _r2d_states(), points=pts2((0.9, 1.0), (-0.4, 0.3)), dim=2,
                     t=lambda rng: 1.0)
    if name in SPECIAL:
        return SPECIAL[name]
    if 'cog' in mod:
        return Entry(t=COGT, points=pts1(0.2, 2.0))
    return DEFAULT


def variant_kwargs(path, cls, rng, base):
    """a second admissible parameter set for the same class, different from `base`: one
    float-valued defaulted parameter moved by a few per cent (special cases below)"""
    name = path.split(':')[1]
    kw = dict(base)
    if name == 'Blake':
        kw.update(lame_mod=2.0e10, shear_mod=1.6e10)
        return kw
    if 'NohBlackBox' in name or name in ('IGEOS_Solver', 'GenEOS_Solver') and 'riemann2D' in path:
        return None
    if name == 'IGEOS_Solver':
        kw.update(pl=1.2, rl=0.9)
        return kw
    cands = [p for p in cls.parameters if isinstance(getattr(cls, p, None), float) and p not in kw
             and p not in ('xmax', 'tmax', 'int_tol', 'eps_precursor_equil')]
    # vector-valued defaults (detonator locations ...): move them a little too
    vec = [p for p in cls.parameters if isinstance(getattr(cls, p, None), (list, tuple, np.ndarray)) and p not in kw
           and len(np.shape(getattr(cls, p))) == 1 and np.asarray(getattr(cls, p)).dtype.kind in 'fi'
           and name in ('Kenamond1', 'Kenamond3')]
    if not cands and not vec:
        return None
    if vec:
        # the detonator is always moved off its default (the origin hides a frame shift done in place: seeded C09-9 / C13-9)
        p = rng.choice(sorted(vec))
        kw[p] = (np.asarray(getattr(cls, p), dtype=float) + np.array([rng.uniform(0.05, 0.3) for _ in getattr(cls, p)])).tolist()
        if 'geometry' in kw and len(kw[p]) != kw['geometry']:
            kw[p] = kw[p][:kw['geometry']]
        if not cands or rng.random() < 0.5:
            return kw
    p = rng.choice(sorted(cands))
    kw[p] = getattr(cls, p) * (1.0 + rng.choice([-1, 1]) * rng.uniform(0.02, 0.05))
    return kw


def refine_points(s, e, rng, t, A, ngrid=200):
    """A plus points on both sides of the steepest changes of the returned fields (shocks, fronts,
    interfaces), located numerically on a fine sorted grid over the entry's sampling range: a request
    that does not straddle a discontinuity cannot show order- or batch-dependence of the branch test"""
    if e.dim != 1:
        return A
    try:
        G = np.array(sorted(set(np.asarray(e.points(rng, ngrid), dtype=float).tolist())))
        sol = s(G, t)
        if len(sol) != len(G):
            return A
        score = np.zeros(len(G) - 1)
        with np.errstate(all='ignore'):
            for nm in sol.dtype.names[1:]:
                col = np.asarray(sol[nm])
                if col.dtype.kind not in 'fiu':
                    continue
                col = col.astype(float)
                scale = np.nanmax(np.abs(col))
                if not np.isfinite(scale) or scale == 0:
                    continue
                score = np.fmax(score, np.abs(np.diff(col)) / scale)
        med = float(np.nanmedian(score))
        idx = [int(k) for k in np.argsort(-score)[:3] if score[k] > max(10 * med, 1e-3)]
        extra = []
        for k in idx:
            a, b = float(G[k]), float(G[k + 1])
            w = (float(G[-1]) - float(G[0])) * rng.uniform(0.01, 0.15)
            extra += [a - rng.uniform(0, w), a, b, b + rng.uniform(0, w)]
        extra = [x for x in extra if G[0] <= x <= G[-1]]
        if not extra:
            return A
        return np.array(sorted(set(np.asarray(A, dtype=float).tolist() + extra)))
    except Exception:
        return A


def build(path, cls, rng):
    """(solver, kwargs) for one catalogue construction"""
    e = entry(path)
    kw = e.kwargs(rng)
    args = e.args() if e.args else ()
    return cls(*args, **kw), kw
