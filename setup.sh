#!/bin/sh
# MANIFEST.setup_cmd: regenerate the models from /repo's working tree, then build
# the whole Lean project (offline; Mathlib is pre-compiled on the toolchain path).
set -e
cd "$(dirname "$0")"
cd tools && /venv/bin/python -m py2lean.main --prune > ../.setup_gen.log 2>&1 || { tail -20 ../.setup_gen.log; exit 1; }
cd ../lean
# a Props module that no longer proves must not stop setup: the checks report it
lake build > ../.setup_build.log 2>&1 || true
tail -3 ../.setup_build.log
test -f .lake/build/lib/lean/EPV/Support.olean
