"""Registry of proof obligations, per property (DESIGN.md §2.1).

An obligation owns: the Lean theorem(s) that discharge it, the generated
models it depends on (tie = Float-twin correspondence), and a numeric oracle
on the real code used to look for a failing input.  A theorem named here but
absent from the build counts as *not discharged*, never as skipped."""
import os
import sys

sys.path.insert(0, os.path.join(os.path.dirname(os.path.abspath(__file__)), 'tools'))

from py2lean.targets import COG          # noqa: E402
from harness import o_c03                # noqa: E402

PROPS = {}


def obl(id, module=None, theorems=(), models=(), oracle=None, tie=None, **kw):
    d = dict(id=id, module=module, theorems=list(theorems), models=list(models), oracle=oracle, tie=tie)
    d.update(kw)
    return d


# ---------------------------------------------------------------------------
# C03 — thermodynamic fields satisfy the declared equation of state
# ---------------------------------------------------------------------------
_c03 = []
for n in COG:
    _c03.append(obl('C03.cog%d.eos' % n, 'EPV.Props.C03.Cog',
                    ['EPV.C03.cog%d_pressure' % n, 'EPV.C03.cog%d_energy' % n], ['Cog%d' % n], o_c03.cog[n]))
_c03 += [
    obl('C03.noh.eos', 'EPV.Props.C03.Noh', ['EPV.C03.noh_eos'], ['Noh'], o_c03.noh),
    obl('C03.noh2.eos', 'EPV.Props.C03.Noh', ['EPV.C03.noh2_eos'], ['Noh2'], o_c03.noh2),
    obl('C03.noh2cog.eos', 'EPV.Props.C03.Noh', ['EPV.C03.noh2cog_pressure', 'EPV.C03.noh2cog_eos'], ['Noh2Cog'],
        o_c03.noh2cog),
]
PROPS['C03'] = dict(
    groups=['hydro'],
    obligations=_c03,
    corr_models=['Cog%d' % n for n in COG] + ['Noh', 'Noh2', 'Noh2Cog'],
    corr_n=60,
    oracle_budget=0.4,
    scope='EOS identities proved on the generated models of Noh, Noh2, Noh2Cog and the twenty Coggeshall solvers '
          '(every leaf of the traced decision tree, all real parameters).',
)
